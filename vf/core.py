"""Plumbing shared by every check: obligations, violations, known findings, evidence, exit codes."""
import json
import os
import sys
import time
import hashlib
import traceback

VERIF = os.path.dirname(os.path.dirname(os.path.abspath(__file__)))
REPO = os.environ.get("VERIF_REPO", "/repo")
EVIDENCE_DIR = os.environ.get("VERIF_EVIDENCE_DIR") or os.path.join(VERIF, "evidence")
KNOWN = os.path.join(VERIF, "known_findings.json")


def _load_floors():
    p = os.path.join(VERIF, "tables", "floors.json")
    if os.path.exists(p):
        with open(p) as fh:
            return json.load(fh)
    return {}


FLOORS = _load_floors()


class AnalysisError(Exception):
    """The check itself is broken / an anchor vanished / a rule matched fewer instances than its floor."""


def load_known():
    if not os.path.exists(KNOWN):
        return []
    with open(KNOWN) as fh:
        d = json.load(fh)
    return [e for e in d.get("findings", []) if e.get("status", "open") == "open"]


class Rule:
    def __init__(self, report, name, desc, floor=1):
        self.report = report
        self.name = name
        self.desc = desc
        self.floor = floor
        self.obligations = 0
        self.discharged = 0
        self.samples = []
        self.units = {}
        self.exceptions_used = []
        self.t0 = time.time()
        self.wall = 0.0
        self.keys = set()

    def ok(self, key, detail=None):
        self.obligations += 1
        self.discharged += 1
        self.keys.add(key)
        if detail is not None and len(self.samples) < 3:
            self.samples.append({"instance": key, "holds": detail})

    def fail(self, key, where, what, extra=None):
        """key: construct-based instance key (stable under line shifts); where: file:line"""
        self.obligations += 1
        self.keys.add(key)
        self.report.violation(self.name, key, where, what, extra)

    def check(self, cond, key, where, what, detail=None, extra=None):
        if cond:
            self.ok(key, detail)
        else:
            self.fail(key, where, what, extra)
        return cond

    def excepted(self, key, reason):
        self.exceptions_used.append({"instance": key, "reason": reason})

    def count(self, unit, n=1):
        self.units[unit] = self.units.get(unit, 0) + n

    def done(self):
        self.wall = time.time() - self.t0
        if self.obligations < self.floor:
            raise AnalysisError("rule %s matched %d instances, below its floor of %d (vacuous rule / vanished anchor)"
                                % (self.name, self.obligations, self.floor))
        return self


class Report:
    def __init__(self, prop, tier, level="other"):
        self.prop = prop
        self.tier = tier
        self.level = level
        self.rules = []
        self.violations = []
        self.known_hits = []
        self.known = load_known()
        self.t0 = time.time()
        self.assumptions = []
        self.declined = []
        self.extra_cov = {}
        self.units = []

    def rule(self, name, desc, floor=1):
        if not getattr(self, "no_floor_table", False):
            floor = FLOORS.get(self.prop, {}).get(name, floor)
        if os.environ.get("VERIF_NOFLOOR"):
            floor = 0
        r = Rule(self, name, desc, floor)
        self.rules.append(r)
        return r

    def violation(self, rule, key, where, what, extra=None):
        for k in self.known:
            if k.get("rule") == rule and k.get("key") == key:
                if not any(h["key"] == key and h["rule"] == rule for h in self.known_hits):
                    self.known_hits.append({"rule": rule, "key": key, "where": where, "what": what, "id": k.get("id")})
                return
        if any(v["rule"] == rule and v["key"] == key for v in self.violations):
            return
        self.violations.append({"rule": rule, "key": key, "where": where, "what": what, "extra": extra})

    def finish(self):
        wall = time.time() - self.t0
        os.makedirs(EVIDENCE_DIR, exist_ok=True)
        os.makedirs(os.path.join(EVIDENCE_DIR, "replay"), exist_ok=True)
        obligations = sum(r.obligations for r in self.rules)
        discharged = sum(r.discharged for r in self.rules)
        samples = []
        for r in self.rules:
            for s in r.samples[:2]:
                samples.append({"rule": r.name, **s})
        distinct = len({(r.name, k) for r in self.rules for k in r.keys})
        cov = {
            "explanation": ("static analysis of /repo's working tree (clang type-checked AST for C++, ast for Python, "
                            "kernel-specification.yml definitions); each obligation is one instance of a named structural rule "
                            "(a necessary condition of the property) evaluated on a concrete construct; nothing from /repo is executed"),
            "obligations": obligations,
            "discharged": discharged,
            "evaluations": max(obligations, 1),
            "distinct_nontrivial": max(distinct, 0),
            "rule": "one evaluation = one rule instance on one construct (function, call site, dispatch chain, table row); distinct = distinct (rule, construct) keys",
            "samples": samples[:24] or [{"note": "no obligations"}],
            "rules": [{"rule": r.name, "what": r.desc, "obligations": r.obligations, "discharged": r.discharged,
                       "floor": r.floor, "analysed": r.units, "tabled_exceptions_consulted": r.exceptions_used[:20],
                       "n_tabled_exceptions": len(r.exceptions_used), "wall_s": round(r.wall, 2)} for r in self.rules],
            "units_analysed": self.units,
            "declined_clauses": self.declined,
            "known_findings_matched": self.known_hits,
            "exhaustive": True,
        }
        cov.update(self.extra_cov)
        ev = {"property_id": self.prop, "tier": self.tier, "seed": int(os.environ.get("VERIF_SEED", "0") or 0),
              "level": self.level, "coverage": cov, "assumptions": self.assumptions, "wall_s": round(wall, 2),
              "violations": len(self.violations)}
        if self.violations:
            ev["coverage"]["violation_list"] = [{k: v[k] for k in ("rule", "key", "where", "what")} for v in self.violations[:200]]
        with open(os.path.join(EVIDENCE_DIR, self.prop + ".json"), "w") as fh:
            json.dump(ev, fh, indent=1, default=str)
        for h in self.known_hits:
            print("KNOWN-FINDING: property=%s %s [%s] %s at %s" % (self.prop, h.get("id") or "", h["rule"], h["what"], h["where"]))
        for r in self.rules:
            print("  rule %-28s obligations=%-5d discharged=%-5d exceptions=%d  %s" % (r.name, r.obligations, r.discharged, len(r.exceptions_used), json.dumps(r.units)))
        if self.violations:
            for i, v in enumerate(self.violations):
                dig = hashlib.sha1((v["rule"] + v["key"]).encode()).hexdigest()[:10]
                path = os.path.join(EVIDENCE_DIR, "replay", "%s_%s.json" % (self.prop, dig))
                with open(path, "w") as fh:
                    json.dump({"property": self.prop, **v}, fh, indent=1, default=str)
                if i < 40:
                    print("  violated: [%s] %s: %s  (instance %s)" % (v["rule"], v["where"], v["what"], v["key"]))
                    print("VIOLATION property=%s replay=%s" % (self.prop, path))
                elif i == 40:
                    print("  ... and %d more violations (all are in %s and under evidence/replay/)" % (len(self.violations) - 40, os.path.join(EVIDENCE_DIR, self.prop + ".json")))
            print("%s %s: %d violation(s), %d/%d obligations discharged, %.1fs" % (self.prop, self.tier, len(self.violations), discharged, obligations, wall))
            return 1
        print("%s %s: OK, %d/%d obligations discharged over %d rules, %.1fs" % (self.prop, self.tier, discharged, obligations, len(self.rules), wall))
        return 0


def main_wrapper(prop, tier, fn):
    """run fn(report) with fail-closed behaviour"""
    try:
        level = "translation_validation" if prop == "C13" else "other"
        rep = Report(prop, tier, level)
        fn(rep)
        for r in rep.rules:
            if r.wall == 0.0:
                r.done()
        return rep.finish()
    except AnalysisError as e:
        print("ANALYSIS-ERROR property=%s %s" % (prop, e))
        return 2
    except Exception:
        print("ANALYSIS-ERROR property=%s internal error in the checker:\n%s" % (prop, traceback.format_exc()))
        return 2


def load_table(name):
    p = os.path.join(VERIF, "tables", name)
    if not os.path.exists(p):
        return {}
    with open(p) as fh:
        return json.load(fh)
