"""C++ front end: clang -fsyntax-only -ast-dump=json  ->  small tuple IR + decl tables.

Nothing is compiled to an executable and nothing is run; clang is used only as a parser /
type checker.  Results are cached under /verif/.cache/cxx keyed by the digest of the
translation unit, of every header under include/awkward, of the rapidjson stub and of this file.

IR (all tuples, picklable, hashable):

 statements (last element is always the source line):
   ('decl', name, type, init|None, line)         local variable
   ('assign', lhs, rhs, line)    ('aug', op, lhs, rhs, line)
   ('expr', e, line)
   ('if', cond, then(tuple), else(tuple), line)  cond may be ('declcond', name, type, init)
   ('while', cond, body, line)  ('dowhile', cond, body, line)
   ('foreach', var, type, rangeexpr, body, line)
   ('return', e|None, line) ('break', line) ('continue', line) ('throw', e|None, line)
   ('try', body, ((exctype, handlerbody), ...), line)
   ('switch', cond, ((labels(tuple of exprs or 'default'), body(tuple)), ...), line)
   ('goto', label, line) ('label', name, line)
 expressions:
   ('var', name) ('const', v) ('this',) ('member', base, name)
   ('idx', a, i) ('bin', op, a, b) ('un', op, a) ('cond', c, a, b) ('addr', a)
   ('call', ('fn', qualname)|expr, args, line)        free / static function, qualname resolved when possible
   ('mcall', name, qualclass|None, recv, args, line)  member call
   ('ctor', type, args, line)                         construction of a class-type temporary / variable
   ('make', type, args, line)                         std::make_shared<type>(args)
   ('new', type, args, line)
   ('cast', kind, type, e)      kind in dynamic/static/reinterpret/const ; C-style & implicit casts are dropped
   ('sizeof', type) ('lambda', params, body, paramtypes) ('widen', '64<-32', type, e) ('cond', c, a, b, type) ('list', elems) ('default',) ('unk', kind)
"""
import hashlib
import json
import os
import pickle
import re
import subprocess
import sys
from concurrent.futures import ProcessPoolExecutor

REPO = os.environ.get("VERIF_REPO", "/repo")
VERIF = os.path.dirname(os.path.dirname(os.path.abspath(__file__)))
CACHE = os.environ.get("VERIF_CACHE", os.path.join(VERIF, ".cache"))
STUBS = os.path.join(VERIF, "stubs")
FRONTEND_VERSION = "cxx-21"

CLANG = "clang++"


_gen_dir = None


def gen_include_dir():
    """The build generates include/awkward/kernels.h from kernel-specification.yml (dev/generate-kernel-signatures.py)
    before compiling; so do we (same text layout), into the cache, ahead of /repo/include on the include path.
    A stale or absent on-disk kernels.h therefore cannot influence (or break) the analysis."""
    global _gen_dir
    if _gen_dir is None:
        from . import spec as specmod
        ks = specmod.load_spec()
        lines = ["#ifndef AWKWARD_KERNELS_H_", "#define AWKWARD_KERNELS_H_", "", '#include "awkward/common.h"', "", 'extern "C" {', ""]
        for k in ks:
            for sp in k["specializations"]:
                lines.append("  EXPORT_SYMBOL ERROR")
                lines.append("  " + sp["name"] + "(")
                args = sp["args"]
                for i, a in enumerate(args):
                    lines.append("    " + specmod.spec_ctype(a["type"]).replace(" *", "*") + " " + a["name"] + (");" if i == len(args) - 1 else ","))
                if not args:
                    lines[-1] += ");"
            lines.append("")
        lines += ["}", "", "#endif // AWKWARD_KERNELS_H_", ""]
        txt = "\n".join(lines)
        dg = hashlib.sha256(txt.encode()).hexdigest()[:16]
        d = os.path.join(CACHE, "gen", dg)
        os.makedirs(os.path.join(d, "awkward"), exist_ok=True)
        p = os.path.join(d, "awkward", "kernels.h")
        if not os.path.exists(p):
            tmp = p + ".%d.tmp" % os.getpid()
            with open(tmp, "w") as fh:
                fh.write(txt)
            os.replace(tmp, p)
        _gen_dir = d
    return _gen_dir


def clang_flags():
    return ["-std=c++11", '-DVERSION_INFO="1.4.0"', "-I" + gen_include_dir(), "-I" + os.path.join(REPO, "include"),
            "-I" + STUBS, "-fsyntax-only", "-w"]


# --------------------------------------------------------------------------------------
# running clang and decoding the stream of JSON objects

def run_clang_json(path, filt):
    cmd = [CLANG] + clang_flags() + ["-Xclang", "-ast-dump=json", "-Xclang", "-ast-dump-filter=" + filt, path]
    r = subprocess.run(cmd, capture_output=True, text=True, cwd=REPO)
    errors = [l for l in r.stderr.splitlines() if " error: " in l or " fatal error: " in l]
    txt = r.stdout
    dec = json.JSONDecoder()
    i, n, out = 0, len(txt), []
    while i < n:
        while i < n and txt[i] in " \n\r\t":
            i += 1
        if i >= n:
            break
        if txt[i] != "{":
            j = txt.find("\n", i)
            if j < 0:
                break
            i = j + 1
            continue
        obj, j = dec.raw_decode(txt, i)
        out.append(obj)
        i = j
    return out, errors


class Loc:
    """clang's JSON dumper prints file/line only when they differ from the previously printed
    location, so locations must be resolved in document order."""
    __slots__ = ("file", "line")

    def __init__(self):
        self.file = None
        self.line = 0

    def one(self, d):
        if "file" in d:
            self.file = d["file"]
        if "line" in d:
            self.line = d["line"]
        return self.file, self.line

    def resolve(self, d):
        if not d:
            return self.file, self.line
        if "spellingLoc" in d or "expansionLoc" in d:
            res = None
            for k in d:  # document order
                if k in ("spellingLoc", "expansionLoc"):
                    r = self.one(d[k])
                    if k == "expansionLoc":
                        res = r
            return res or (self.file, self.line)
        return self.one(d)


def annotate(objs):
    """in-place: node['_f'], node['_l'] (begin of range, expansion loc), node['_le'] (end line)"""
    loc = Loc()
    stack = []
    for o in objs:
        stack.append(o)
        while stack:
            n = stack.pop()
            if not isinstance(n, dict):
                continue
            if "loc" in n:
                f, l = loc.resolve(n["loc"])
                n["_lf"], n["_ll"] = f, l
            rg = n.get("range")
            if rg is not None:
                f, l = loc.resolve(rg.get("begin"))
                n["_f"], n["_l"] = f, l
                f2, l2 = loc.resolve(rg.get("end"))
                n["_le"] = l2
            else:
                n["_f"], n["_l"], n["_le"] = loc.file, loc.line, loc.line
            inner = n.get("inner")
            if inner:
                # document order: push reversed
                for c in reversed(inner):
                    stack.append(c)
    return objs


# --------------------------------------------------------------------------------------
# declaration index: id -> qualified name

class DeclIndex:
    def __init__(self):
        self.qual = {}      # id -> qualified name
        self.kind = {}      # id -> kind
        self.params = {}    # id -> [(name,type)]
        self.rettype = {}
        self.cls_of = {}    # method id -> class qualname
        self.targs = {}     # function template specialisation id -> template args

    def build(self, objs):
        for o in objs:
            self._walk(o, self._ctx_of_toplevel(o))

    def _ctx_of_toplevel(self, o):
        return None  # resolved lazily through parentDeclContextId

    def _walk(self, n, ctx):
        k = n.get("kind")
        if k is None:
            return
        name = n.get("name")
        nid = n.get("id")
        if ctx is None:
            p = n.get("parentDeclContextId")
            if p is not None and p in self.qual:
                ctx = self.qual[p]
        if k in ("NamespaceDecl",):
            q = (ctx + "::" if ctx else "") + (name or "(anon)")
            self.qual[nid] = q
            self.kind[nid] = k
            for c in n.get("inner", ()):
                self._walk(c, q)
            return
        if k in ("CXXRecordDecl", "ClassTemplateSpecializationDecl", "ClassTemplatePartialSpecializationDecl", "EnumDecl"):
            q = (ctx + "::" if ctx else "") + (name or "(anon)")
            self.qual[nid] = q
            self.kind[nid] = k
            for c in n.get("inner", ()):
                self._walk(c, q)
            return
        if k in ("ClassTemplateDecl", "FunctionTemplateDecl", "LinkageSpecDecl", "TypeAliasTemplateDecl"):
            if k == "FunctionTemplateDecl" and nid:
                self.qual[nid] = (ctx + "::" if ctx else "") + (name or "")
                self.kind[nid] = k
            for c in n.get("inner", ()):
                self._walk(c, ctx)
            return
        if k in ("FunctionDecl", "CXXMethodDecl", "CXXConstructorDecl", "CXXDestructorDecl", "CXXConversionDecl"):
            q = (ctx + "::" if ctx else "") + (name or "")
            self.qual[nid] = q
            self.kind[nid] = k
            self.cls_of[nid] = ctx
            ps = [(c.get("name", ""), c.get("type", {}).get("qualType", "")) for c in n.get("inner", ()) if c.get("kind") == "ParmVarDecl"]
            self.params[nid] = ps
            t = n.get("type", {}).get("qualType", "")
            self.rettype[nid] = t.split("(")[0].strip()
            ta = tuple(str(c.get("type", {}).get("qualType", c.get("value"))) for c in n.get("inner", ()) if c.get("kind") == "TemplateArgument")
            if ta:
                self.targs[nid] = ta
            return
        if k in ("FieldDecl", "VarDecl", "EnumConstantDecl", "TypedefDecl", "TypeAliasDecl"):
            self.qual[nid] = (ctx + "::" if ctx else "") + (name or "")
            self.kind[nid] = k
            return


# --------------------------------------------------------------------------------------
# lowering

TRANSPARENT = {"ImplicitCastExpr", "ParenExpr", "CStyleCastExpr", "CXXFunctionalCastExpr", "ExprWithCleanups",
               "MaterializeTemporaryExpr", "CXXBindTemporaryExpr", "ConstantExpr", "FullExpr"}
SMARTPTR_NOOPS = {"get", "operator->", "operator*"}


def _qt(n):
    t = n.get("type")
    return t.get("qualType", "") if t else ""


def clean_type(t):
    t = t.replace("awkward::", "").replace("std::", "").replace("struct ", "").replace("class ", "")
    return t.strip()


_srcs = {}


def src_token(n):
    """name of an UnresolvedMemberExpr (clang's JSON omits it): the token at the end of its range"""
    f = n.get("_f")
    e = (n.get("range") or {}).get("end") or {}
    if "expansionLoc" in e:
        e = e["expansionLoc"]
    off, tl = e.get("offset"), e.get("tokLen")
    if f is None or off is None or tl is None:
        return "?unresolved"
    p = f if os.path.isabs(f) else os.path.join(REPO, f)
    if p not in _srcs:
        try:
            with open(p, "rb") as fh:
                _srcs[p] = fh.read()
        except OSError:
            _srcs[p] = b""
    tok = _srcs[p][off:off + tl].decode("utf-8", "replace")
    if re.match(r"^[A-Za-z_]\w*$", tok):
        return tok
    # member template call  x.name<args>(...): the range ends at '>' ; take the identifier before the template argument list
    b = (n.get("range") or {}).get("begin") or {}
    if "expansionLoc" in b:
        b = b["expansionLoc"]
    boff = b.get("offset")
    if boff is not None and boff < off:
        text = _srcs[p][boff:off + tl].decode("utf-8", "replace")
        depth = 0
        i = len(text) - 1
        while i >= 0:
            ch = text[i]
            if ch == ">":
                depth += 1
            elif ch == "<":
                depth -= 1
                if depth == 0:
                    break
            i -= 1
        head = text[:i] if i > 0 else text
        m = re.search(r"([A-Za-z_]\w*)\s*$", head)
        if m:
            return m.group(1)
    return tok or "?unresolved"


_WIDTH = {"long": 64, "unsigned long": 64, "long long": 64, "unsigned long long": 64, "int": 32, "unsigned int": 32, "short": 16, "unsigned short": 16,
          "signed char": 8, "unsigned char": 8, "char": 8, "bool": 8}


def int_width(t):
    if not t:
        return None
    q = t.get("desugaredQualType") or t.get("qualType") or ""
    q = q.replace("const ", "").strip()
    if q in _WIDTH:
        return _WIDTH[q]
    q2 = (t.get("qualType") or "").replace("const ", "").strip()
    return {"int64_t": 64, "uint64_t": 64, "size_t": 64, "ssize_t": 64, "int32_t": 32, "uint32_t": 32, "int16_t": 16, "uint16_t": 16, "int8_t": 8, "uint8_t": 8}.get(q2)


def is_floating(t):
    if not t:
        return False
    q = (t.get("desugaredQualType") or t.get("qualType") or "").replace("const ", "").strip()
    return q in ("double", "float", "long double") or q.startswith("std::complex") or q.startswith("complex<")


def _is_const_expr(n):
    k = n.get("kind")
    if k in ("IntegerLiteral", "CharacterLiteral", "CXXBoolLiteralExpr", "UnaryExprOrTypeTraitExpr"):
        return True
    if k in ("ParenExpr", "ImplicitCastExpr", "CStyleCastExpr", "UnaryOperator", "ConstantExpr") and n.get("inner"):
        return all(_is_const_expr(c) for c in n["inner"])
    if k == "BinaryOperator" and n.get("inner"):
        return all(_is_const_expr(c) for c in n["inner"])
    return False


def src_template_args(n):
    """text between the outermost <...> of the source range of node n (e.g. std::make_shared<IndexedOptionArray64>)"""
    f = n.get("_f")
    rg = n.get("range") or {}
    b, e = rg.get("begin") or {}, rg.get("end") or {}
    if "expansionLoc" in b:
        b = b["expansionLoc"]
    if "expansionLoc" in e:
        e = e["expansionLoc"]
    boff, eoff, tl = b.get("offset"), e.get("offset"), e.get("tokLen")
    if f is None or boff is None or eoff is None:
        return None
    p = f if os.path.isabs(f) else os.path.join(REPO, f)
    if p not in _srcs:
        try:
            with open(p, "rb") as fh:
                _srcs[p] = fh.read()
        except OSError:
            _srcs[p] = b""
    text = _srcs[p][boff:eoff + (tl or 1)].decode("utf-8", "replace")
    i = text.find("<")
    j = text.rfind(">")
    if i < 0 or j <= i:
        return None
    return clean_type(re.sub(r"\s+", " ", text[i + 1:j]).strip())


def src_text(n):
    """normalised source text of node n's range (whitespace and std:: removed)"""
    f = n.get("_f")
    rg = n.get("range") or {}
    b, e = rg.get("begin") or {}, rg.get("end") or {}
    if "expansionLoc" in b:
        b = b["expansionLoc"]
    if "expansionLoc" in e:
        e = e["expansionLoc"]
    boff, eoff, tl = b.get("offset"), e.get("offset"), e.get("tokLen")
    if f is None or boff is None or eoff is None:
        return None
    p = f if os.path.isabs(f) else os.path.join(REPO, f)
    if p not in _srcs:
        try:
            with open(p, "rb") as fh:
                _srcs[p] = fh.read()
        except OSError:
            _srcs[p] = b""
    text = _srcs[p][boff:eoff + (tl or 1)].decode("utf-8", "replace")
    return re.sub(r"\s+", "", text).replace("std::", "")


class Lower:
    def __init__(self, index):
        self.ix = index
        self.unknown = set()

    # ---- statements
    def block(self, n):
        if n is None or not n.get("kind"):
            return ()
        k = n["kind"]
        if k == "CompoundStmt":
            out = []
            for c in n.get("inner", ()):
                out.extend(self.stmt(c))
            return tuple(out)
        return tuple(self.stmt(n))

    def stmt(self, n):
        k = n.get("kind")
        line = n.get("_l", 0)
        inner = n.get("inner", [])
        if k is None:
            return []
        if k == "CompoundStmt":
            return list(self.block(n))
        if k == "NullStmt":
            return []
        if k == "DeclStmt":
            res = []
            for c in inner:
                if c["kind"] == "VarDecl":
                    res.append(self.vardecl(c))
                elif c["kind"] in ("TypedefDecl", "TypeAliasDecl", "UsingDecl", "StaticAssertDecl", "CXXRecordDecl", "UsingDirectiveDecl"):
                    pass
                else:
                    self.unknown.add("DeclStmt/" + c["kind"])
            return res
        if k == "IfStmt":
            idx = 0
            pre = []
            if n.get("hasInit"):
                pre.extend(self.stmt(inner[idx]))
                idx += 1
            if n.get("hasVar"):
                vd = inner[idx]
                idx += 1
                v = [c for c in vd.get("inner", []) if c.get("kind") == "VarDecl"]
                d = self.vardecl(v[0]) if v else None
                cond = ("declcond", d[1], d[2], d[3]) if d else self.expr(inner[idx])
                idx += 1  # the implicit condition expression referring to the var
            else:
                cond = self.expr(inner[idx])
                idx += 1
            then = self.block(inner[idx]) if idx < len(inner) else ()
            idx += 1
            els = self.block(inner[idx]) if idx < len(inner) else ()
            return pre + [("if", cond, then, els, line)]
        if k == "ForStmt":
            init, condvar, cond, inc, body = (inner + [{}] * 5)[:5]
            res = []
            if init.get("kind"):
                res.extend(self.stmt(init))
            c = self.expr(cond) if cond.get("kind") else ("const", True)
            b = list(self.block(body))
            incs = self.stmt(inc) if inc.get("kind") else []
            res.append(("for", c, tuple(b), tuple(incs), line))
            return res
        if k == "WhileStmt":
            if inner and inner[0].get("kind") == "DeclStmt":
                v = [c for c in inner[0].get("inner", []) if c.get("kind") == "VarDecl"]
                d = self.vardecl(v[0])
                return [("while", ("declcond", d[1], d[2], d[3]), self.block(inner[-1]), line)]
            return [("while", self.expr(inner[0]), self.block(inner[-1]), line)]
        if k == "DoStmt":
            return [("dowhile", self.expr(inner[1]), self.block(inner[0]), line)]
        if k == "CXXForRangeStmt":
            # inner: [init?], __range decl, __begin, __end, cond, inc, loopvar decl, body
            body = inner[-1]
            lv = inner[-2]
            rng = None
            for c in inner[:-2]:
                if c.get("kind") == "DeclStmt":
                    for v in c.get("inner", []):
                        if v.get("kind") == "VarDecl" and v.get("name", "").startswith("__range"):
                            vi = [x for x in v.get("inner", []) if x.get("kind")]
                            if vi:
                                rng = self.expr(vi[0])
            vname, vtype = "?", ""
            for v in lv.get("inner", []):
                if v.get("kind") == "VarDecl":
                    vname, vtype = v.get("name", "?"), clean_type(_qt(v))
            return [("foreach", vname, vtype, rng, self.block(body), line)]
        if k == "ReturnStmt":
            real = [c for c in inner if c.get("kind")]
            return [("return", self.expr(real[0]) if real else None, line)]
        if k == "BreakStmt":
            return [("break", line)]
        if k == "ContinueStmt":
            return [("continue", line)]
        if k == "CXXTryStmt":
            body = self.block(inner[0])
            handlers = []
            for h in inner[1:]:
                hi = h.get("inner", [])
                et = "..."
                hb = ()
                for c in hi:
                    if c.get("kind") == "VarDecl":
                        et = clean_type(_qt(c))
                    elif c.get("kind") == "CompoundStmt":
                        hb = self.block(c)
                handlers.append((et, hb))
            return [("try", body, tuple(handlers), line)]
        if k == "SwitchStmt":
            real = [c for c in inner if c.get("kind")]
            cond = self.expr(real[0])
            body = real[-1]
            cases = []
            cur_labels, cur_body = None, []

            def flush():
                nonlocal cur_labels, cur_body
                if cur_labels is not None:
                    cases.append((tuple(cur_labels), tuple(cur_body)))
                cur_labels, cur_body = None, []

            def add_case(c):
                nonlocal cur_labels, cur_body
                # nested CaseStmt chains
                labels = []
                while c.get("kind") in ("CaseStmt", "DefaultStmt"):
                    ci = [x for x in c.get("inner", []) if x.get("kind")]
                    if c["kind"] == "CaseStmt":
                        labels.append(self.expr(ci[0]))
                        c = ci[-1] if len(ci) > 1 else {}
                    else:
                        labels.append("default")
                        c = ci[-1] if ci else {}
                if cur_labels is not None and not cur_body:
                    cur_labels.extend(labels)
                else:
                    flush()
                    cur_labels = labels
                if c.get("kind"):
                    cur_body.extend(self.stmt(c))

            for c in (body.get("inner", []) if body.get("kind") == "CompoundStmt" else [body]):
                if c.get("kind") in ("CaseStmt", "DefaultStmt"):
                    add_case(c)
                else:
                    if cur_labels is None:
                        cur_labels = ["<pre>"]
                    cur_body.extend(self.stmt(c))
            flush()
            return [("switch", cond, tuple(cases), line)]
        if k == "GotoStmt":
            return [("goto", str(n.get("targetLabelDeclId")), line)]
        if k == "LabelStmt":
            return [("label", n.get("name"), line)] + [s for c in inner for s in self.stmt(c)]
        if k == "AttributedStmt":
            return [s for c in inner if c.get("kind", "").endswith("Stmt") or c.get("kind", "").endswith("Expr") or c.get("kind", "").endswith("Operator") for s in self.stmt(c)]
        # expression statement
        e = self.expr(n)
        return [self.exprstmt(e, line)]

    def exprstmt(self, e, line):
        if e[0] == "assign":
            return ("assign", e[1], e[2], line)
        if e[0] == "aug":
            return ("aug", e[1], e[2], e[3], line)
        if e[0] == "throw":
            return ("throw", e[1], line)
        return ("expr", e, line)

    def vardecl(self, c):
        line = c.get("_l", 0)
        init = [x for x in c.get("inner", []) if x.get("kind") and not x["kind"].endswith("Attr") and x["kind"] != "FullComment"]
        t = clean_type(_qt(c))
        e = None
        if init:
            e = self.expr(init[0])
            if e[0] == "list" and c.get("init") == "call":
                e = ("ctor", t, e[1], line)  # ParenListExpr in dependent context: T x(args)
        return ("decl", c.get("name", "?"), t, e, line)

    # ---- expressions
    def args(self, nodes):
        return tuple(self.expr(x) for x in nodes if x.get("kind"))

    def callee_name(self, f):
        """strip casts; return ('fn', qualname) if it is a reference to a function"""
        while f.get("kind") in TRANSPARENT and f.get("inner"):
            f = f["inner"][0]
        k = f.get("kind")
        if k == "DeclRefExpr":
            rd = f.get("referencedDecl", {})
            if rd.get("kind") in ("FunctionDecl", "CXXMethodDecl"):
                q = self.ix.qual.get(rd.get("id"))
                fd = f.get("foundReferencedDecl")
                if fd and fd.get("id") in self.ix.qual:
                    q = self.ix.qual[fd["id"]]
                ta = self.ix.targs.get(rd.get("id"))
                if ta:
                    return ("fn", q or rd.get("name"), ta)
                return ("fn", q or rd.get("name"))
        if k == "UnresolvedLookupExpr":
            lk = f.get("lookups") or []
            q = None
            for l in lk:
                q = self.ix.qual.get(l.get("id")) or q
            return ("fn", q or f.get("name"))
        if k == "DependentScopeDeclRefExpr":
            return ("fn", "?dep")
        return None

    def expr(self, n):
        k = n.get("kind")
        inner = n.get("inner", [])
        line = n.get("_l", 0)
        if k in TRANSPARENT:
            if k in ("CXXFunctionalCastExpr", "CStyleCastExpr") and not inner:
                return ("ctor", clean_type(_qt(n)), (), line)
            if k == "CStyleCastExpr" and inner and clean_type(_qt(n)) == "I":
                # ForthMachineOf<T, I>: I is the 32-bit bytecode type; a cast to it is a (possibly truncating) conversion worth keeping
                return ("cast", "cstyle", "I", self.expr(inner[0]))
            if k == "ImplicitCastExpr" and n.get("castKind") == "IntegralCast" and inner:
                wt, wf = int_width(n.get("type")), int_width(inner[0].get("type"))
                if wt and wf and wt < wf and not n.get("isPartOfExplicitCast") and inner[0].get("kind") not in ("IntegerLiteral", "CharacterLiteral", "CXXBoolLiteralExpr", "UnaryOperator") and not _is_const_expr(inner[0]):
                    return ("narrow", "%d<-%d" % (wt, wf), clean_type(_qt(n)), self.expr(inner[0]))
                # arithmetic carried out in 32 bits (or less) and only then widened to 64: the sum/product has already wrapped
                core = inner[0]
                while core.get("kind") == "ParenExpr" and core.get("inner"):
                    core = core["inner"][0]
                if wt == 64 and wf and wf <= 32 and core.get("kind") == "BinaryOperator" and core.get("opcode") in ("+", "-", "*", "<<") and not _is_const_expr(core):
                    return ("widen", "%d<-%d" % (wt, wf), clean_type(_qt(core)), self.expr(inner[0]))
            return self.expr(inner[0])
        if k == "SubstNonTypeTemplateParmExpr":
            real = [c for c in inner if c.get("kind") and not c["kind"].endswith("Decl")]
            return self.expr(real[-1]) if real else ("unk", k)
        if k == "IntegerLiteral":
            return ("const", int(n["value"]))
        if k == "FloatingLiteral":
            return ("const", float(n["value"]))
        if k == "CXXBoolLiteralExpr":
            return ("const", bool(n["value"]))
        if k == "StringLiteral":
            try:
                return ("const", json.loads(n["value"]))
            except Exception:
                return ("const", n["value"])
        if k == "CharacterLiteral":
            return ("const", n["value"])
        if k == "CXXNullPtrLiteralExpr" or k == "GNUNullExpr":
            return ("const", None)
        if k == "DeclRefExpr":
            rd = n.get("referencedDecl", {})
            if rd.get("kind") == "EnumConstantDecl":
                q = self.ix.qual.get(rd.get("id"))
                return ("enum", q or rd.get("name"))
            if rd.get("kind") in ("FunctionDecl", "CXXMethodDecl"):
                return ("fn", self.ix.qual.get(rd.get("id")) or rd.get("name"))
            return ("var", rd.get("name"))
        if k == "UnresolvedLookupExpr":
            return ("fn", n.get("name", "?"))
        if k == "DependentScopeDeclRefExpr":
            t = src_text(n)
            if t and "::" in t and re.match(r"^[\w:<>,*&]+$", t):
                return ("trait", t)   # e.g. is_same<T,int32_t>::value
            return ("var", "?dep")
        if k == "ArraySubscriptExpr":
            return ("idx", self.expr(inner[0]), self.expr(inner[1]))
        if k == "BinaryOperator":
            op = n["opcode"]
            a = self.expr(inner[0])
            b = self.expr(inner[1])
            if op == "=":
                return ("assign", a, b)
            if op == ",":
                return ("comma", a, b)
            if op == "/" and is_floating(n.get("type")):
                op = "f/"   # floating-point division: no trap on a zero divisor (normalised back to '/' by kspec.cexpr)
            if op == "<<" and a[0] == "const" and (int_width(inner[0].get("type")) or 0) >= 64:
                # (uint64_t)1 << n  /  1LL << n : the literal already has 64 bits (C-style casts are otherwise transparent)
                a = ("cast", "cstyle", clean_type(_qt(inner[0])), a)
            return ("bin", op, a, b)
        if k == "CompoundAssignOperator":
            op = n["opcode"][:-1]
            if op == "/" and is_floating(n.get("computeResultType") or n.get("type")):
                op = "f/"
            return ("aug", op, self.expr(inner[0]), self.expr(inner[1]))
        if k == "UnaryOperator":
            op = n["opcode"]
            a = self.expr(inner[0])
            if op in ("++", "--"):
                return ("aug", op[0], a, ("const", 1), "post" if n.get("isPostfix") else "pre")
            if op == "*":
                return ("idx", a, ("const", 0))
            if op == "&":
                return ("addr", a)
            if op == "+":
                return a
            return ("un", op, a)
        if k == "ConditionalOperator":
            return ("cond", self.expr(inner[0]), self.expr(inner[1]), self.expr(inner[2]), clean_type(_qt(n)))
        if k == "CXXThrowExpr":
            real = [c for c in inner if c.get("kind")]
            return ("throw", self.expr(real[0]) if real else None)
        if k in ("CallExpr", "CXXMemberCallExpr"):
            f = inner[0]
            while f.get("kind") in TRANSPARENT and f.get("inner"):
                f = f["inner"][0]
            fk = f.get("kind")
            args = self.args(inner[1:])
            if fk in ("MemberExpr", "CXXDependentScopeMemberExpr", "UnresolvedMemberExpr"):
                mname = f.get("name") or f.get("member") or src_token(f)
                base = self.expr(f["inner"][0]) if f.get("inner") else ("this",)
                mid = f.get("referencedMemberDecl")
                qcls = self.ix.cls_of.get(mid)
                if mname in SMARTPTR_NOOPS and not args:
                    # smart pointer access: x.get() / x->  ==> x   (only for std smart pointers and raw access)
                    bt = ""
                    if f.get("inner"):
                        bt = _qt(f["inner"][0])
                    if mname == "get" and ("Ptr" in bt or "shared_ptr" in bt or "unique_ptr" in bt or "<dependent type>" in bt or qcls is None or "shared_ptr" in (qcls or "") or "unique_ptr" in (qcls or "") or "__shared_ptr" in (qcls or "")):
                        return ("deref", base)
                return ("mcall", mname, qcls, base, args, line)
            fn = self.callee_name(f)
            if fn is not None:
                q = fn[1] or ""
                if q.endswith("make_shared") or q.endswith("::make_shared"):
                    # the type as written in the source (std::make_shared<X>) so that template patterns and
                    # non-template code name classes the same way (aliases such as ListOffsetArray64 are kept)
                    t = src_template_args(f)
                    if not t:
                        t = clean_type(_qt(n))
                        m = re.match(r"shared_ptr<(?:_NonArray<)?(.*)>$", t)
                        if m:
                            t = m.group(1)
                            if t.count("<") < t.count(">"):
                                t = t[:-1]
                        if t == "<dependent type>" or not t:
                            t = "?"
                    return ("make", t, args, line)
                return ("call", fn, args, line)
            return ("call", self.expr(f), args, line)
        if k == "CXXOperatorCallExpr":
            f = inner[0]
            fn = self.callee_name(f)
            opname = (fn[1] if fn else "") or ""
            opname = opname.split("::")[-1]
            a = self.args(inner[1:])
            op = opname.replace("operator", "")
            if op == "->" or (op == "*" and len(a) == 1):
                return ("deref", a[0])
            if op == "[]" and len(a) == 2:
                return ("idx", a[0], a[1])
            if op == "=" and len(a) == 2:
                return ("assign", a[0], a[1])
            if op == "()":
                return ("call", a[0], a[1:], line)
            if op in ("+=", "-=", "*=", "/=", "|=", "&=") and len(a) == 2:
                return ("aug", op[:-1], a[0], a[1])
            if op in ("++", "--"):
                return ("aug", op[0], a[0], ("const", 1), "pre")
            if len(a) == 2:
                return ("bin", op, a[0], a[1])
            if len(a) == 1:
                return ("un", op, a[0])
            return ("call", ("fn", opname), a, line)
        if k in ("CXXDependentScopeMemberExpr", "DependentScopeDeclRefExpr") and not inner:
            # a dependent qualified name such as std::is_same<T, int32_t>::value: keep its (normalised) spelling
            t = src_text(n)
            if t and "::" in t and re.match(r"^[\w:<>,*&]+$", t):
                return ("trait", t)
        if k in ("MemberExpr", "CXXDependentScopeMemberExpr", "UnresolvedMemberExpr"):
            base = self.expr(inner[0]) if inner else ("this",)
            return ("member", base, n.get("name") or n.get("member") or src_token(n))
        if k in ("CXXConstructExpr", "CXXTemporaryObjectExpr", "CXXUnresolvedConstructExpr"):
            t = clean_type(_qt(n))
            args = self.args(inner)
            # copy / move / converting construction from a single argument of smart pointer or same type: transparent
            if len(args) == 1 and k == "CXXConstructExpr":
                ct = n.get("ctorType", {}).get("qualType", "")
                if ("&&" in ct or "const" in ct) and ("shared_ptr" in ct or "Ptr" in t or n.get("elidable")):
                    return args[0]
                a0 = inner[0]
                if clean_type(_qt(a0)).replace("const ", "") == t.replace("const ", ""):
                    return args[0]
            real = tuple(a for a in args if a != ("default",))
            return ("ctor", t, real, line)
        if k in ("InitListExpr",):
            return ("list", self.args(inner))
        if k == "ParenListExpr":
            return ("list", self.args(inner))
        if k == "CXXStdInitializerListExpr":
            return self.expr(inner[0])
        if k == "LambdaExpr":
            body = None
            params = ()
            for c in inner:
                if c.get("kind") == "CompoundStmt":
                    body = c
                if c.get("kind") == "CXXRecordDecl":
                    for m in c.get("inner", []):
                        if m.get("kind") == "CXXMethodDecl" and m.get("name") == "operator()":
                            params = tuple(p.get("name", "") for p in m.get("inner", []) if p.get("kind") == "ParmVarDecl")
                            ptypes = tuple(clean_type(_qt(p)) for p in m.get("inner", []) if p.get("kind") == "ParmVarDecl")
            return ("lambda", params, self.block(body) if body else (), ptypes if params else ())
        if k == "UnaryExprOrTypeTraitExpr":
            at = n.get("argType", {}).get("qualType")
            if at is None and inner:
                at = _qt(inner[0])
            return ("sizeof", clean_type(at or ""))
        if k == "CXXThisExpr":
            return ("this",)
        if k == "CXXDefaultArgExpr":
            return ("default",)
        if k in ("ImplicitValueInitExpr", "CXXScalarValueInitExpr"):
            return ("const", 0)
        if k == "CXXDynamicCastExpr":
            return ("cast", "dynamic", clean_type(_qt(n)), self.expr(inner[0]))
        if k == "CXXStaticCastExpr":
            return ("cast", "static", clean_type(_qt(n)), self.expr(inner[0]))
        if k == "CXXReinterpretCastExpr":
            return ("cast", "reinterpret", clean_type(_qt(n)), self.expr(inner[0]))
        if k == "CXXConstCastExpr":
            return ("cast", "const", clean_type(_qt(n)), self.expr(inner[0]))
        if k == "CXXNewExpr":
            return ("new", clean_type(_qt(n)), self.args(inner), line)
        if k == "CXXDeleteExpr":
            return ("delete", self.expr(inner[0]))
        if k == "CXXTypeidExpr":
            return ("typeid", clean_type(n.get("typeArg", {}).get("qualType", "")) if "typeArg" in n else (self.expr(inner[0]) if inner else None))
        if k == "CXXDefaultInitExpr":
            return ("default",)
        if k == "PredefinedExpr":
            return ("const", "__func__")
        if k == "CXXPseudoDestructorExpr":
            return ("unk", k)
        if k == "OpaqueValueExpr" and inner:
            return self.expr(inner[0])
        if k == "BinaryConditionalOperator":
            return ("cond", self.expr(inner[0]), self.expr(inner[0]), self.expr(inner[-1]))
        if k == "StmtExpr":
            return ("unk", k)
        if k == "ArrayInitLoopExpr" or k == "ArrayInitIndexExpr":
            return ("unk", k)
        if k == "CXXNoexceptExpr":
            return ("const", True)
        if k == "SizeOfPackExpr":
            return ("unk", k)
        self.unknown.add(k or "None")
        return ("unk", k)

    def _explicit_targs(self, f):
        """make_shared<X>(...) in a dependent context: clang's JSON does not print the explicit template arguments;
        recover X from the source text of the callee expression"""
        return src_template_args(f) or "?"


# --------------------------------------------------------------------------------------
# function extraction

FUNC_KINDS = {"FunctionDecl", "CXXMethodDecl", "CXXConstructorDecl", "CXXDestructorDecl", "CXXConversionDecl"}


def wanted_file(f):
    if f is None:
        return False
    f = f.replace(REPO + "/", "")
    return f.startswith("src/") or f.startswith("include/awkward") or f.startswith(os.path.join(VERIF, "selftest"))


def extract(objs, index, want_inst=True):
    funcs = []
    classes = {}
    lower = Lower(index)

    def tmpl_args(n):
        out = []
        for c in n.get("inner", []):
            if c.get("kind") == "TemplateArgument":
                t = c.get("type", {}).get("qualType")
                if t is None:
                    t = c.get("value")
                    if t is None and c.get("inner"):
                        t = c["inner"][0].get("value")
                out.append(str(t))
        return tuple(out)

    def rec_class(n, q, targs):
        bases = tuple(clean_type(b.get("type", {}).get("qualType", "")) for b in n.get("bases", []))
        methods = []
        fields = []
        for c in n.get("inner", []):
            ck = c.get("kind")
            if ck in FUNC_KINDS and not c.get("isImplicit"):
                methods.append((c.get("name"), bool(c.get("virtual")), bool(c.get("pure")), c.get("type", {}).get("qualType", ""),
                                tuple(p.get("name", "") for p in c.get("inner", []) if p.get("kind") == "ParmVarDecl")))
            elif ck == "FieldDecl":
                fields.append((c.get("name"), clean_type(_qt(c))))
        if n.get("completeDefinition") or methods or fields:
            key = q if not targs else q + "<" + ",".join(targs) + ">"
            classes[key] = {"name": q, "targs": targs, "bases": bases, "methods": tuple(methods), "fields": tuple(fields),
                            "file": n.get("_f"), "line": n.get("_l")}

    def walk(n, ctx, targs, in_inst, ftargs=None):
        k = n.get("kind")
        if k is None:
            return
        if ctx is None:
            p = n.get("parentDeclContextId")
            if p is not None and p in index.qual:
                ctx = index.qual[p]
        name = n.get("name")
        if k == "NamespaceDecl":
            q = (ctx + "::" if ctx else "") + (name or "(anon)")
            for c in n.get("inner", ()):
                walk(c, q, targs, in_inst)
            return
        if k in ("LinkageSpecDecl",):
            for c in n.get("inner", ()):
                walk(c, ctx, targs, in_inst)
            return
        if k == "ClassTemplateDecl":
            for c in n.get("inner", ()):
                if c.get("kind") == "CXXRecordDecl":
                    walk(c, ctx, None, False)
                elif c.get("kind") == "ClassTemplateSpecializationDecl" and want_inst:
                    walk(c, ctx, None, True)
            return
        if k == "ClassTemplateSpecializationDecl":
            if not want_inst:
                return
            ta = tmpl_args(n)
            q = (ctx + "::" if ctx else "") + (name or "")
            rec_class(n, q, ta)
            for c in n.get("inner", ()):
                walk(c, q, ta, True)
            return
        if k == "CXXRecordDecl":
            q = (ctx + "::" if ctx else "") + (name or "(anon)")
            rec_class(n, q, None)
            for c in n.get("inner", ()):
                walk(c, q, targs, in_inst)
            return
        if k == "FunctionTemplateDecl":
            first = True
            for c in n.get("inner", ()):
                if c.get("kind") in FUNC_KINDS:
                    if first:
                        walk(c, ctx, targs, in_inst, ftargs=None)
                        first = False
                    elif want_inst:
                        ta = tmpl_args(c)
                        walk(c, ctx, targs, True, ftargs=ta)
            return
        if k in FUNC_KINDS:
            body = None
            for c in n.get("inner", ()):
                if c.get("kind") == "CompoundStmt":
                    body = c
                elif c.get("kind") == "CXXTryStmt":
                    body = c
            if body is None:
                return
            f = n.get("_lf") or n.get("_f")
            if not wanted_file(f):
                return
            ps = tuple((c.get("name", ""), clean_type(c.get("type", {}).get("qualType", ""))) for c in n.get("inner", ()) if c.get("kind") == "ParmVarDecl")
            inits = []
            for c in n.get("inner", ()):
                if c.get("kind") == "CXXCtorInitializer":
                    tgt = (c.get("anyInit") or {}).get("name") or clean_type((c.get("baseInit") or {}).get("qualType", "")) or "?"
                    ci = [x for x in c.get("inner", []) if x.get("kind")]
                    inits.append((tgt, lower.expr(ci[0]) if ci else None))
            qt = n.get("type", {}).get("qualType", "")
            funcs.append({
                "name": name, "cls": ctx, "qual": (ctx + "::" if ctx else "") + (name or ""),
                "params": ps, "ret": clean_type(qt.split("(")[0]), "sig": clean_type(qt),
                "const": qt.rstrip().endswith("const"),
                "targs": targs if targs else None, "ftargs": ftargs,
                "inst": bool(in_inst), "body": lower.block(body) if body.get("kind") == "CompoundStmt" else tuple(lower.stmt(body)),
                "inits": tuple(inits),
                "file": (f or "").replace(REPO + "/", ""), "line": n.get("_ll") or n.get("_l"), "endline": n.get("_le"),
                "kind": k, "storage": n.get("storageClass"),
            })
            return

    for o in objs:
        walk(o, None, None, False)
    return funcs, classes, sorted(lower.unknown)


# --------------------------------------------------------------------------------------
# top-level function names defined in a file (token scan; used only to choose clang name filters)

def strip_comments_strings(src):
    out = []
    i, n = 0, len(src)
    while i < n:
        c = src[i]
        if src.startswith("//", i):
            j = src.find("\n", i)
            j = n if j < 0 else j
            i = j
        elif src.startswith("/*", i):
            j = src.find("*/", i + 2)
            j = n if j < 0 else j + 2
            out.append("\n" * src.count("\n", i, j))
            i = j
        elif c == '"':
            j = i + 1
            while j < n and src[j] != '"':
                j += 2 if src[j] == "\\" else 1
            out.append('""')
            i = j + 1
        elif c == "'":
            j = i + 1
            while j < n and src[j] != "'":
                j += 2 if src[j] == "\\" else 1
            out.append("' '")
            i = j + 1
        else:
            out.append(c)
            i += 1
    return "".join(out)


def toplevel_function_names(path):
    src = strip_comments_strings(open(path, encoding="utf-8", errors="replace").read())
    # platform alternatives (#ifdef _MSC_VER A #else B #endif) open the same brace twice: keep the non-Windows branch
    src = re.sub(r"#ifdef _MSC_VER\n(.*?)#else\n(.*?)#endif", lambda mm: "\n" * (mm.group(1).count("\n") + 1) + mm.group(2) + "\n", src, flags=re.S)
    # drop preprocessor lines
    src = "\n".join("" if l.lstrip().startswith("#") else l for l in src.split("\n"))
    names = set()
    depth = 0
    i, n = 0, len(src)
    last_ident = None
    for m in re.finditer(r"[A-Za-z_][A-Za-z_0-9]*|[{}();]", src):
        t = m.group(0)
        if t == "{":
            depth += 1
        elif t == "}":
            depth -= 1
        elif t == "(":
            if depth == 0 and last_ident and last_ident not in ("if", "while", "for", "switch", "return", "sizeof", "ERROR", "EXPORT_SYMBOL"):
                names.add(last_ident)
        last_ident = t if re.match(r"[A-Za-z_]", t) else None
    return names


# --------------------------------------------------------------------------------------
# cache + parallel driver

_hdr_digest = None


def headers_digest():
    global _hdr_digest
    if _hdr_digest is None:
        h = hashlib.sha256()
        h.update(FRONTEND_VERSION.encode())
        roots = [os.path.join(REPO, "include", "awkward"), STUBS, gen_include_dir()]
        for root in roots:
            for d, _, fs in sorted(os.walk(root)):
                for f in sorted(fs):
                    p = os.path.join(d, f)
                    if p == os.path.join(REPO, "include", "awkward", "kernels.h"):
                        continue  # generated file; superseded by our own generation from the specification
                    h.update(p.encode())
                    with open(p, "rb") as fh:
                        h.update(fh.read())
        with open(os.path.abspath(__file__), "rb") as fh:
            h.update(fh.read())
        _hdr_digest = h.hexdigest()
    return _hdr_digest


def tu_key(path, mode):
    h = hashlib.sha256()
    h.update(headers_digest().encode())
    h.update(mode.encode())
    h.update(path.encode())
    with open(path, "rb") as fh:
        h.update(fh.read())
    return h.hexdigest()[:32]


def parse_tu(path, mode="lib", hdig=None):
    """mode 'kernel': filters = names defined in the file.  mode 'lib': filter 'awkward::' (+ 'awkward_' for extern C)."""
    global _hdr_digest
    if hdig:
        _hdr_digest = hdig
    os.makedirs(os.path.join(CACHE, "cxx"), exist_ok=True)
    key = tu_key(path, mode)
    cp = os.path.join(CACHE, "cxx", key + ".pkl")
    if os.path.exists(cp):
        try:
            with open(cp, "rb") as fh:
                return pickle.load(fh)
        except Exception:
            pass
    rel = path.replace(REPO + "/", "")
    if mode in ("kernel", "binding"):
        names = sorted(toplevel_function_names(path))
        filters = []
        if any("awkward_" in nm for nm in names) or not names:
            filters.append("awkward_")
        for nm in names:
            if not any(nm.find(f) >= 0 for f in filters):
                filters.append(nm)
    else:
        filters = ["awkward::"]
        src = open(path, encoding="utf-8", errors="replace").read()
        if 'extern "C"' in src or "awkward_" in src and "kernel-dispatch" not in path:
            if re.search(r"^\s*(uint8_t|void|int64_t|int|ERROR)\s+awkward_\w+\(", src, re.M):
                filters.append("awkward_")
    funcs, classes, unknown, errors = [], {}, set(), []
    seen = set()
    dumps = None
    if mode == "binding" and len(filters) > 2:
        # one clang run per top-level name: run them side by side (the process is I/O- and subprocess-bound)
        from concurrent.futures import ThreadPoolExecutor
        with ThreadPoolExecutor(6) as tex:
            dumps = list(tex.map(lambda f_: run_clang_json(path, f_), filters))
    for fi, filt in enumerate(filters):
        objs, errs = dumps[fi] if dumps is not None else run_clang_json(path, filt)
        if dumps is not None:
            dumps[fi] = None
        errors.extend(errs)
        annotate(objs)
        ix = DeclIndex()
        ix.build(objs)
        fs, cs, unk = extract(objs, ix, want_inst=True)
        for f in fs:
            k = (f["qual"], f["file"], f["line"], f["targs"], f["ftargs"], f["sig"])
            if k in seen:
                continue
            seen.add(k)
            if mode in ("kernel", "binding") and f["file"] != rel:
                continue
            funcs.append(f)
        for k, v in cs.items():
            classes.setdefault(k, v)
        unknown.update(unk)
        del objs
    res = {"path": rel, "funcs": funcs, "classes": classes, "unknown": sorted(unknown), "errors": errors, "filters": filters}
    tmp = cp + ".%d.tmp" % os.getpid()
    with open(tmp, "wb") as fh:
        pickle.dump(res, fh, protocol=pickle.HIGHEST_PROTOCOL)
    os.replace(tmp, cp)
    return res


def _job(a):
    try:
        return parse_tu(*a)
    except Exception as e:  # surfaced by the caller as ANALYSIS-ERROR
        import traceback
        return {"path": a[0], "funcs": [], "classes": {}, "unknown": [], "errors": ["frontend exception: " + traceback.format_exc()], "filters": []}


def parse_many(paths_modes, jobs=None):
    jobs = jobs or int(os.environ.get("VERIF_JOBS", "16"))
    hd = headers_digest()
    todo = [(p, m, hd) for p, m in paths_modes]
    # fast path: all cached
    out = {}
    miss = []
    for p, m, _ in todo:
        cp = os.path.join(CACHE, "cxx", tu_key(p, m) + ".pkl")
        if os.path.exists(cp):
            try:
                with open(cp, "rb") as fh:
                    out[p] = pickle.load(fh)
                continue
            except Exception:
                pass
        miss.append((p, m, hd))
    if miss:
        # biggest first
        miss.sort(key=lambda a: -os.path.getsize(a[0]))
        if len(miss) == 1 or jobs == 1:
            for a in miss:
                out[a[0]] = _job(a)
        else:
            with ProcessPoolExecutor(min(jobs, len(miss))) as ex:
                for a, r in zip(miss, ex.map(_job, miss, chunksize=1)):
                    out[a[0]] = r
    return out


def kernel_files():
    d = os.path.join(REPO, "src", "cpu-kernels")
    return sorted(os.path.join(d, f) for f in os.listdir(d) if f.endswith(".cpp"))


def binding_files():
    d = os.path.join(REPO, "src", "python")
    return sorted(os.path.join(d, f) for f in os.listdir(d) if f.endswith(".cpp"))


def lib_files():
    out = []
    root = os.path.join(REPO, "src", "libawkward")
    for d, _, fs in os.walk(root):
        for f in fs:
            if f.endswith(".cpp"):
                out.append(os.path.join(d, f))
    return sorted(out)


if __name__ == "__main__":
    import pprint
    import time
    t = time.time()
    p = sys.argv[1]
    mode = sys.argv[2] if len(sys.argv) > 2 else ("kernel" if "cpu-kernels" in p else "lib")
    r = parse_tu(os.path.abspath(p), mode)
    print("errors", r["errors"], "unknown", r["unknown"], "filters", r["filters"], "funcs", len(r["funcs"]), "classes", len(r["classes"]), "%.1fs" % (time.time() - t))
    want = sys.argv[3] if len(sys.argv) > 3 else None
    for f in r["funcs"]:
        if want is None:
            print(f["qual"], f["targs"], f["ftargs"], f["file"], f["line"], "inst" if f["inst"] else "")
        elif f["name"] == want and not f["inst"]:
            pprint.pprint(f, width=160)
