// defect4: purelist_depth() of a list whose content has no single depth.
// Documented (Content.h / Form): "If this array contains a UnionForm with different depths, the return value is -1".
// UnionForm/UnionArray::purelist_depth return -1 for mixed depths, but ListForm / ListOffsetForm / RegularForm (and
// ListArray / ListOffsetArray / RegularArray, NumpyForm is not concerned) blindly add 1 to it: [[1,[2]]] reports
// depth 0, [[[1,[2]]]] reports depth 1 -- i.e. a legitimate-looking depth of a flat array -- and [[[[1,[2]]]]]
// reports 2.  A UnionForm one level up then compares those fake depths with real ones: [[[1,[2]]], 5] is a union of
// "depth 1" (fake) and depth 1 (real) and reports purelist_depth 1 although minmax_depth is (1,4).
#include "gen.h"
#include "awkward/io/json.h"
#include "awkward/builder/ArrayBuilderOptions.h"
int main() {
  int bad = 0;
  const char* docs[] = {"[1,[2]]", "[[1,[2]]]", "[[[1,[2]]]]", "[[[[1,[2]]]]]", "[[[[1,[2]]]], 5]", "[[[1,[2]]], 5]"};
  for (const char* doc : docs) {
    ak::ContentPtr a = ak::FromJsonString(doc, ak::ArrayBuilderOptions(1024, 2.0), nullptr, nullptr, nullptr);
    ak::FormPtr f = a->form(true);
    auto mm = a->minmax_depth();
    std::cout << doc << "  type " << a->type(ak::util::TypeStrs())->tostring() << "  minmax_depth=(" << mm.first << "," << mm.second
              << ")  array.purelist_depth=" << a->purelist_depth() << "  form.purelist_depth=" << f->purelist_depth();
    // reference: mixed depths below -> -1 (and in any case never a depth outside [min,max])
    bool ok = a->purelist_depth() == -1 && f->purelist_depth() == -1;
    std::cout << (ok ? "  ok" : "  FAIL (expected -1)") << std::endl;
    if (!ok) bad++;
  }
  return bad ? 1 : 0;
}
