// defect10: slicing an UnmaskedArray of records silently drops the option type.
// UnmaskedArray::simplify_optiontype (UnmaskedArray.cpp:253-267; the same in UnmaskedForm::simplify_optiontype :201)
// returns content_ whenever the content is an IndexedArray32/U32/64 -- which is NOT an option type -- or another
// option type; only for option-type contents is that a simplification, for a plain IndexedArray it throws the
// option-ness (and the UnmaskedArray's parameters) away.  UnmaskedArray::carry(carry, allow_lazy) builds exactly
// UnmaskedArray(IndexedArray64(RecordArray)) because RecordArray::carry is lazy, and then calls it; so does
// getitem_next for SliceAt/SliceRange/SliceArray64/SliceJagged64.  Result: a[1:], a[::2], a[[2,0,1]] (everything that
// goes through Content::getitem(Slice) or carry with a non-contiguous carry) of type ?{"x": int64} has type
// {"x": int64}, while getitem_range(1, n) keeps ?{"x": int64}.
#include "gen.h"
int main() {
  int bad = 0;
  Rng r(7); GenOptions o; o.params = false;
  auto lookup = std::make_shared<ak::util::RecordLookup>(); lookup->push_back("x");
  ak::ContentPtr rec = std::make_shared<ak::RecordArray>(ak::Identities::none(), ak::util::Parameters(),
      ak::ContentPtrVec({gen_numpy(r, o, 4, ak::util::dtype::int64, true).array}), lookup, 4);
  ak::util::Parameters p; p["__doc__"] = "\"kept?\"";
  ak::ContentPtr a = std::make_shared<ak::UnmaskedArray>(ak::Identities::none(), p, rec);
  ak::util::TypeStrs none;
  ak::TypePtr ta = a->type(none);
  std::cout << "array type:              " << ta->tostring() << std::endl;
  auto check = [&](const std::string& what, const ak::ContentPtr& got) {
    ak::TypePtr t = got->type(none);
    bool ok = t->equal(ta, true) && t->tostring() == ta->tostring();
    std::cout << (ok ? "ok   " : "FAIL ") << what << ": " << t->tostring() << "   (" << got->classname() << ")" << std::endl;
    if (!ok) bad++;
  };
  check("getitem_range(1, 4)    ", a->getitem_range(1, 4));
  { ak::Slice s; s.append(ak::SliceRange(1, ak::Slice::none(), 1)); s.become_sealed(); check("getitem(Slice [1:])    ", a->getitem(s)); }
  { ak::Slice s; s.append(ak::SliceRange(ak::Slice::none(), ak::Slice::none(), 2)); s.become_sealed(); check("getitem(Slice [::2])   ", a->getitem(s)); }
  { ak::Slice s; s.append(ak::SliceArray64(make_index<int64_t>({2, 0, 1}, r), {3}, {1}, false)); s.become_sealed(); check("getitem(Slice [[2,0,1]])", a->getitem(s)); }
  check("carry([2,0,1], lazy)   ", a->carry(make_index<int64_t>({2, 0, 1}, r), true));
  check("carry([2,0,1], eager)  ", a->carry(make_index<int64_t>({2, 0, 1}, r), false));
  return bad ? 1 : 0;
}
