// defect7: the parameters of an IndexedArray are part of the *item* type the array promises, but not of the items.
// IndexedForm::type (IndexedArray.cpp:55-74) copies the IndexedArray's own parameters onto the content's type, so
// IndexedArray64{"__record__":"Point"}(RecordArray{x}) has type Point["x": int64] and purelist_parameter("__record__")
// = "Point"; getitem_at(i) and project() go straight to the content and return plain {"x": int64} records.  The same
// logical data stored as RecordArray{"__record__":"Point"} (or IndexedArray over it) gives Point items.
// (An IndexedArray over a RecordArray is what RecordArray::carry(lazy) produces, so ak.with_parameter(recs[[2,0,1]],
// "__record__", "Point") builds exactly this layout.)  Also: the type string override (typestrs, i.e. __typestr__
// behaviors) is computed from the content's parameters before the copy, so it is not applied.
#include "gen.h"
int main() {
  int bad = 0;
  Rng r(5); GenOptions o; o.params = false;
  auto lookup = std::make_shared<ak::util::RecordLookup>(); lookup->push_back("x");
  ak::ContentPtr rec = std::make_shared<ak::RecordArray>(ak::Identities::none(), ak::util::Parameters(),
      ak::ContentPtrVec({gen_numpy(r, o, 3, ak::util::dtype::int64, true).array}), lookup, 3);
  ak::util::Parameters p; p["__record__"] = "\"Point\"";
  ak::Index64 idx = make_index<int64_t>({2, 0, 1}, r);
  ak::ContentPtr a = std::make_shared<ak::IndexedArray64>(ak::Identities::none(), p, idx, rec);
  ak::util::TypeStrs none, ts; ts["Point"] = "PointTS";
  ak::TypePtr ta = a->type(none);
  ak::TypePtr ti = a->getitem_at(0)->type(none);
  std::cout << "array item type:       " << ta->tostring() << "\ngetitem_at(0) type:    " << ti->tostring() << std::endl;
  if (!ti->equal(ta, true)) { std::cout << "FAIL: item type differs from the promised item type" << std::endl; bad++; }
  ak::TypePtr tp = std::dynamic_pointer_cast<ak::IndexedArray64>(a)->project()->type(none);
  std::cout << "project() type:        " << tp->tostring() << std::endl;
  if (!tp->equal(ta, true)) { std::cout << "FAIL: project() changes the type" << std::endl; bad++; }
  std::cout << "with typestrs:         " << a->type(ts)->tostring() << " (expected PointTS)" << std::endl;
  if (a->type(ts)->tostring() != "PointTS") { std::cout << "FAIL: typestr override not applied" << std::endl; bad++; }
  return bad ? 1 : 0;
}
