// defect6: integer-indexed child accessors without a lower (or any) bounds check read outside the vector.
//   RecordForm::content(int64_t)  RecordArray.cpp:62   only `fieldindex >= numfields()` is rejected
//   RecordType::field(int64_t)    RecordType.cpp:242   idem
//   RecordArray::field(int64_t)   RecordArray.cpp:1568 idem (and Record::field(int64_t) through it)
//   UnionForm::content(int64_t)   UnionArray.cpp:57    no check at all
//   UnionType::type(int64_t)      UnionType.cpp:127    no check at all
//   util::key(lookup, -1, n)      util.cpp:545         returns "-1" for a tuple (RecordForm/RecordArray/RecordType::key)
// All are bound to Python as-is (form.content(-1), recordtype.field(-1), layout.field(-1), unionform.content(7), key(-1)).
// Expected: std::invalid_argument, as for an index that is too large.  Run under valgrind to see the invalid reads;
// without valgrind the demo exits non-zero (or crashes) because no exception is thrown.
#include "gen.h"
#include <unistd.h>
#include <sys/wait.h>
template <typename F> static int probe(const char* what, F f) {
  // run in a child process: the call may crash
  fflush(stdout);
  pid_t pid = fork();
  if (pid == 0) {
    try { f(); } catch (std::invalid_argument&) { _exit(0); } catch (std::out_of_range&) { _exit(0); } catch (...) { _exit(3); }
    _exit(2);   // returned something for an index that does not exist
  }
  int st = 0; waitpid(pid, &st, 0);
  int rc = WIFEXITED(st) ? WEXITSTATUS(st) : 100 + WTERMSIG(st);
  std::cout << (rc == 0 ? "ok   " : "FAIL ") << what << (rc == 0 ? " -> exception" : rc == 2 ? " -> returned a value for an index that does not exist" : rc >= 100 ? " -> killed by a signal" : " -> other") << std::endl;
  return rc == 0 ? 0 : 1;
}
int main() {
  int bad = 0;
  ak::FormPtr i8 = ak::Form::fromjson("\"int8\"");
  std::vector<ak::FormPtr> two({i8, ak::Form::fromjson("\"float64\"")});
  auto rf = std::make_shared<ak::RecordForm>(false, ak::util::Parameters(), ak::FormKey(nullptr), ak::util::RecordLookupPtr(nullptr), two);
  auto uf = std::make_shared<ak::UnionForm>(false, ak::util::Parameters(), ak::FormKey(nullptr), ak::Index::Form::i8, ak::Index::Form::i64, two);
  ak::util::TypeStrs none;
  std::shared_ptr<ak::RecordType> rt = std::dynamic_pointer_cast<ak::RecordType>(rf->type(none));
  std::shared_ptr<ak::UnionType> ut = std::dynamic_pointer_cast<ak::UnionType>(uf->type(none));
  Rng r(3); GenOptions o; o.params = false;
  ak::ContentPtrVec cs({gen_numpy(r, o, 3, ak::util::dtype::int8, true).array, gen_numpy(r, o, 3, ak::util::dtype::float64, true).array});
  auto ra = std::make_shared<ak::RecordArray>(ak::Identities::none(), ak::util::Parameters(), cs, ak::util::RecordLookupPtr(nullptr), 3);

  bad += probe("RecordForm::content(2)   [control]", [&] { rf->content(2); });
  bad += probe("RecordForm::content(-1)", [&] { rf->content(-1)->tojson(false, false); });
  bad += probe("RecordType::field(-1)", [&] { rt->field(-1)->tostring(); });
  bad += probe("RecordArray::field(-1)", [&] { ra->field(-1)->length(); });
  bad += probe("UnionForm::content(2)", [&] { uf->content(2)->tojson(false, false); });
  bad += probe("UnionForm::content(-1)", [&] { uf->content(-1)->tojson(false, false); });
  bad += probe("UnionType::type(2)", [&] { ut->type(2)->tostring(); });
  bad += probe("RecordForm::key(-1) (tuple)", [&] { std::string k = rf->key(-1); std::cout << "     key(-1) = \"" << k << "\" but haskey(\"" << k << "\") = " << rf->haskey(k) << std::endl; });
  bad += probe("RecordArray::key(-1) (tuple)", [&] { ra->key(-1); });
  bad += probe("RecordType::key(-1) (tuple)", [&] { rt->key(-1); });
  return bad ? 1 : 0;
}
