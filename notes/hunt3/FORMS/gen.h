// Random valid-layout generator + reference "spec" tree, shared by the demos.
#pragma once
#include <cstdint>
#include <cstring>
#include <iostream>
#include <memory>
#include <stdexcept>
#include <string>
#include <vector>
#include <map>
#include <set>
#include <sstream>

#include "awkward/Content.h"
#include "awkward/Identities.h"
#include "awkward/Index.h"
#include "awkward/Slice.h"
#include "awkward/array/NumpyArray.h"
#include "awkward/array/EmptyArray.h"
#include "awkward/array/ListArray.h"
#include "awkward/array/ListOffsetArray.h"
#include "awkward/array/RegularArray.h"
#include "awkward/array/IndexedArray.h"
#include "awkward/array/ByteMaskedArray.h"
#include "awkward/array/BitMaskedArray.h"
#include "awkward/array/UnmaskedArray.h"
#include "awkward/array/UnionArray.h"
#include "awkward/array/RecordArray.h"
#include "awkward/array/Record.h"
#include "awkward/array/None.h"
#include "awkward/array/VirtualArray.h"
#include "awkward/virtual/ArrayGenerator.h"
#include "awkward/virtual/ArrayCache.h"
#include "awkward/type/Type.h"
#include "awkward/type/ArrayType.h"
#include "awkward/type/ListType.h"
#include "awkward/type/RegularType.h"
#include "awkward/type/OptionType.h"
#include "awkward/type/UnionType.h"
#include "awkward/type/RecordType.h"
#include "awkward/type/PrimitiveType.h"
#include "awkward/type/UnknownType.h"
#include "awkward/kernel-dispatch.h"
#include "awkward/util.h"

namespace ak = awkward;

struct Rng {
  uint64_t s;
  explicit Rng(uint64_t seed) : s(seed * 0x9E3779B97F4A7C15ULL + 0x1234567ULL) { next(); next(); }
  uint64_t next() { s ^= s << 13; s ^= s >> 7; s ^= s << 17; return s; }
  int64_t range(int64_t n) { return n <= 0 ? 0 : (int64_t)(next() % (uint64_t)n); }
  bool coin(int pct = 50) { return range(100) < pct; }
};

struct Spec;
using SpecPtr = std::shared_ptr<Spec>;
struct Spec {
  std::string kind;  // numpy empty list regular option indexed union record virtual
  int ndim = 1;      // numpy
  std::vector<int64_t> inner;
  std::string prim;  // numpy
  int64_t size = 0;  // regular
  std::vector<SpecPtr> kids;
  std::vector<std::string> keys;
  bool istuple = false;
  bool hasparams = false;
  bool isstring = false;
};

struct Gen { ak::ContentPtr array; SpecPtr spec; };

struct GenOptions {
  bool params = true;
  bool virtuals = true;
  bool unions = true;
  bool weird_formats = false;   // datetime units etc.
  bool strings = true;
  bool jsonable = false;
};

static std::shared_ptr<void> buf(int64_t nbytes) {
  std::shared_ptr<uint8_t> p = ak::kernel::malloc<uint8_t>(ak::kernel::lib::cpu, nbytes > 0 ? nbytes : 1);
  std::memset(p.get(), 0, (size_t)(nbytes > 0 ? nbytes : 1));
  return p;
}

static const ak::util::dtype ALL_DTYPES[] = {
  ak::util::dtype::boolean, ak::util::dtype::int8, ak::util::dtype::int16, ak::util::dtype::int32,
  ak::util::dtype::int64, ak::util::dtype::uint8, ak::util::dtype::uint16, ak::util::dtype::uint32,
  ak::util::dtype::uint64, ak::util::dtype::float16, ak::util::dtype::float32, ak::util::dtype::float64,
  ak::util::dtype::float128, ak::util::dtype::complex64, ak::util::dtype::complex128,
  ak::util::dtype::complex256, ak::util::dtype::datetime64, ak::util::dtype::timedelta64};

static ak::util::Parameters random_params(Rng& r, const GenOptions& o, const std::string& context) {
  ak::util::Parameters p;
  if (!o.params || !r.coin(35)) return p;
  int n = 1 + (int)r.range(3);
  for (int i = 0; i < n; i++) {
    switch (r.range(12)) {
      case 0: if (context == "record") p["__record__"] = "\"Point\""; else p["__doc__"] = "\"hello\""; break;
      case 1: p["__doc__"] = "\"line1\\nline2 \\\"quoted\\\" back\\\\slash\""; break;
      case 2: p["units"] = "\"caf\\u00e9 \xce\xbcm\""; break;
      case 3: p["limits"] = "[0, 1.5, null, {\"a\": [true, false, -3]}]"; break;
      case 4: p["k\"ey\\\xd0\xb9"] = "{\"nested\": {\"deep\": [1e300, -0.0, 12345678901234567890]}}"; break;
      case 5: if (context == "record") p["__record__"] = "\"my record\""; else p["num"] = "3.25"; break;
      case 6: p["__array__"] = "\"myarray\""; break;
      case 7: if (context == "indexed") p["__array__"] = "\"categorical\""; else p["flag"] = "true"; break;
      case 8: p["nul"] = "null"; break;
      case 9: if (context == "record") p["__record__"] = "\"union\""; else p["int"] = "-9223372036854775808"; break;
      case 10: p[""] = "\"\""; break;
      default: p["tab\tkey"] = "\"\\u0001\\u001f\\ud83d\\ude00\""; break;
    }
  }
  return p;
}

static Gen gen(Rng& r, const GenOptions& o, int64_t L, int depth);

static Gen gen_numpy(Rng& r, const GenOptions& o, int64_t L, ak::util::dtype forced = ak::util::dtype::NOT_PRIMITIVE,
                     bool onedim = false, const ak::util::Parameters* forcedparams = nullptr) {
  ak::util::dtype dt = forced != ak::util::dtype::NOT_PRIMITIVE ? forced : ALL_DTYPES[r.range(18)];
  if (o.jsonable && forced == ak::util::dtype::NOT_PRIMITIVE) { const ak::util::dtype J[] = {ak::util::dtype::boolean, ak::util::dtype::int64, ak::util::dtype::float64, ak::util::dtype::int32, ak::util::dtype::uint8}; dt = J[r.range(5)]; }
  std::string format = ak::util::dtype_to_format(dt);
  if (o.weird_formats) {
    if (dt == ak::util::dtype::datetime64) {
      const char* f[] = {"M8[ns]", "M8[s]", "M8[10us]", "M8[D]", "M"};
      format = f[r.range(5)];
    }
    if (dt == ak::util::dtype::timedelta64) {
      const char* f[] = {"m8[ns]", "m8[h]", "m8[3M]", "m"};
      format = f[r.range(4)];
    }
  }
  int64_t itemsize = ak::util::dtype_to_itemsize(dt);
  std::vector<ssize_t> shape; shape.push_back((ssize_t)L);
  int extra = (onedim || !r.coin(30)) ? 0 : 1 + (int)r.range(2);
  for (int i = 0; i < extra; i++) shape.push_back((ssize_t)r.range(4));
  // contiguous strides then optionally stride the first dimension and offset
  std::vector<ssize_t> strides(shape.size());
  ssize_t acc = (ssize_t)itemsize;
  for (int i = (int)shape.size() - 1; i >= 0; i--) { strides[(size_t)i] = acc; acc *= (shape[(size_t)i] > 0 ? shape[(size_t)i] : 1); }
  int64_t step = r.coin(25) ? 2 : 1;
  int64_t skip = r.coin(25) ? 1 + r.range(3) : 0;
  ssize_t rowbytes = strides[0];
  strides[0] = rowbytes * (ssize_t)step;
  int64_t nbytes = rowbytes * (L * step + skip + 2);
  auto spec = std::make_shared<Spec>();
  spec->kind = "numpy"; spec->ndim = (int)shape.size(); spec->prim = ak::util::dtype_to_name(dt);
  for (size_t i = 1; i < shape.size(); i++) spec->inner.push_back(shape[i]);
  ak::util::Parameters p = forcedparams ? *forcedparams : random_params(r, o, "numpy");
  spec->hasparams = !p.empty();
  ak::ContentPtr a = std::make_shared<ak::NumpyArray>(ak::Identities::none(), p, buf(nbytes), shape, strides,
                                                      (ssize_t)(skip * rowbytes), (ssize_t)itemsize, format, dt,
                                                      ak::kernel::lib::cpu);
  return Gen{a, spec};
}

template <typename T>
static ak::IndexOf<T> make_index(const std::vector<int64_t>& v, Rng& r) {
  // non-zero offset into a larger buffer
  int64_t off = r.coin(30) ? 1 + r.range(3) : 0;
  int64_t n = (int64_t)v.size();
  std::shared_ptr<T> p = ak::kernel::malloc<T>(ak::kernel::lib::cpu, (n + off + 1) * (int64_t)sizeof(T));
  for (int64_t i = 0; i < off; i++) p.get()[i] = (T)77;
  for (int64_t i = 0; i < n; i++) p.get()[off + i] = (T)v[(size_t)i];
  return ak::IndexOf<T>(p, off, n, ak::kernel::lib::cpu);
}

class DictCache : public ak::ArrayCache {
 public:
  ak::ContentPtr get(const std::string& key) const override {
    auto it = m_.find(key); return it == m_.end() ? ak::ContentPtr(nullptr) : it->second; }
  void set(const std::string& key, const ak::ContentPtr& value) override { m_[key] = value; }
  bool is_broken() const override { return false; }
  const std::string tostring_part(const std::string& indent, const std::string& pre, const std::string& post) const override {
    return indent + pre + "<DictCache/>" + post; }
 private:
  std::map<std::string, ak::ContentPtr> m_;
};

static Gen gen_string(Rng& r, const GenOptions& o, int64_t L) {
  bool bytes = r.coin(30);
  ak::util::Parameters pc; pc["__array__"] = bytes ? "\"byte\"" : "\"char\"";
  ak::util::Parameters pl; pl["__array__"] = bytes ? "\"bytestring\"" : "\"string\"";
  std::vector<int64_t> offs; int64_t at = r.range(3); offs.push_back(at);
  for (int64_t i = 0; i < L; i++) { at += r.range(4); offs.push_back(at); }
  Gen c = gen_numpy(r, o, at + r.range(3), ak::util::dtype::uint8, true, &pc);
  auto spec = std::make_shared<Spec>(); spec->kind = "list"; spec->kids.push_back(c.spec); spec->hasparams = true; spec->isstring = true;
  ak::ContentPtr a = std::make_shared<ak::ListOffsetArray64>(ak::Identities::none(), pl, make_index<int64_t>(offs, r), c.array);
  return Gen{a, spec};
}

static Gen gen(Rng& r, const GenOptions& o, int64_t L, int depth) {
  int choice = depth <= 0 ? 0 : (int)r.range(14);
  if (depth <= 0 && L == 0 && r.coin(30)) choice = 100;
  if (depth <= 0 && o.strings && r.coin(15)) choice = 101;
  if (choice == 100 || (choice == 1 && L == 0)) {
    auto spec = std::make_shared<Spec>(); spec->kind = "empty";
    ak::util::Parameters p = random_params(r, o, "empty"); spec->hasparams = !p.empty();
    return Gen{std::make_shared<ak::EmptyArray>(ak::Identities::none(), p), spec};
  }
  if (choice == 101) return gen_string(r, o, L);
  switch (choice) {
    case 0: case 1:
      return gen_numpy(r, o, L);
    case 2: {  // ListOffsetArray
      std::vector<int64_t> offs; int64_t at = r.range(3); offs.push_back(at);
      for (int64_t i = 0; i < L; i++) { at += r.range(4); offs.push_back(at); }
      Gen c = gen(r, o, at + r.range(3), depth - 1);
      auto spec = std::make_shared<Spec>(); spec->kind = "list"; spec->kids.push_back(c.spec);
      ak::util::Parameters p = random_params(r, o, "list"); spec->hasparams = !p.empty();
      ak::ContentPtr a;
      switch (r.range(3)) {
        case 0: a = std::make_shared<ak::ListOffsetArray32>(ak::Identities::none(), p, make_index<int32_t>(offs, r), c.array); break;
        case 1: a = std::make_shared<ak::ListOffsetArrayU32>(ak::Identities::none(), p, make_index<uint32_t>(offs, r), c.array); break;
        default: a = std::make_shared<ak::ListOffsetArray64>(ak::Identities::none(), p, make_index<int64_t>(offs, r), c.array); break;
      }
      return Gen{a, spec};
    }
    case 3: {  // ListArray
      int64_t M = r.range(8);
      std::vector<int64_t> starts, stops;
      for (int64_t i = 0; i < L; i++) {
        int64_t a = r.range(M + 1); int64_t b = a + r.range(M - a + 1);
        starts.push_back(a); stops.push_back(b);
      }
      Gen c = gen(r, o, M, depth - 1);
      auto spec = std::make_shared<Spec>(); spec->kind = "list"; spec->kids.push_back(c.spec);
      ak::util::Parameters p = random_params(r, o, "list"); spec->hasparams = !p.empty();
      ak::ContentPtr a;
      switch (r.range(3)) {
        case 0: a = std::make_shared<ak::ListArray32>(ak::Identities::none(), p, make_index<int32_t>(starts, r), make_index<int32_t>(stops, r), c.array); break;
        case 1: a = std::make_shared<ak::ListArrayU32>(ak::Identities::none(), p, make_index<uint32_t>(starts, r), make_index<uint32_t>(stops, r), c.array); break;
        default: a = std::make_shared<ak::ListArray64>(ak::Identities::none(), p, make_index<int64_t>(starts, r), make_index<int64_t>(stops, r), c.array); break;
      }
      return Gen{a, spec};
    }
    case 4: {  // RegularArray
      int64_t size = r.range(4);
      Gen c = gen(r, o, L * size + r.range(size > 0 ? size : 3), depth - 1);
      auto spec = std::make_shared<Spec>(); spec->kind = "regular"; spec->size = size; spec->kids.push_back(c.spec);
      ak::util::Parameters p = random_params(r, o, "regular"); spec->hasparams = !p.empty();
      return Gen{std::make_shared<ak::RegularArray>(ak::Identities::none(), p, c.array, size, L), spec};
    }
    case 5: {  // IndexedArray
      int64_t M = (L > 0 ? 1 : 0) + r.range(6);
      std::vector<int64_t> idx; for (int64_t i = 0; i < L; i++) idx.push_back(r.range(M));
      Gen c = gen(r, o, M, depth - 1);
      auto spec = std::make_shared<Spec>(); spec->kind = "indexed"; spec->kids.push_back(c.spec);
      ak::util::Parameters p = random_params(r, o, "indexed"); spec->hasparams = !p.empty();
      ak::ContentPtr a;
      switch (r.range(3)) {
        case 0: a = std::make_shared<ak::IndexedArray32>(ak::Identities::none(), p, make_index<int32_t>(idx, r), c.array); break;
        case 1: a = std::make_shared<ak::IndexedArrayU32>(ak::Identities::none(), p, make_index<uint32_t>(idx, r), c.array); break;
        default: a = std::make_shared<ak::IndexedArray64>(ak::Identities::none(), p, make_index<int64_t>(idx, r), c.array); break;
      }
      return Gen{a, spec};
    }
    case 6: {  // IndexedOptionArray
      int64_t M = r.range(6);
      std::vector<int64_t> idx; for (int64_t i = 0; i < L; i++) idx.push_back(r.range(M + 1) - 1);
      Gen c; do { c = gen(r, o, M, depth - 1); } while (c.spec->kind == "option");
      auto spec = std::make_shared<Spec>(); spec->kind = "option"; spec->kids.push_back(c.spec);
      ak::util::Parameters p = random_params(r, o, "indexed"); spec->hasparams = !p.empty();
      ak::ContentPtr a;
      if (r.coin()) a = std::make_shared<ak::IndexedOptionArray32>(ak::Identities::none(), p, make_index<int32_t>(idx, r), c.array);
      else a = std::make_shared<ak::IndexedOptionArray64>(ak::Identities::none(), p, make_index<int64_t>(idx, r), c.array);
      return Gen{a, spec};
    }
    case 7: {  // ByteMaskedArray
      std::vector<int64_t> m; for (int64_t i = 0; i < L; i++) m.push_back(r.range(2));
      Gen c; do { c = gen(r, o, L + r.range(3), depth - 1); } while (c.spec->kind == "option");
      auto spec = std::make_shared<Spec>(); spec->kind = "option"; spec->kids.push_back(c.spec);
      ak::util::Parameters p = random_params(r, o, "option"); spec->hasparams = !p.empty();
      return Gen{std::make_shared<ak::ByteMaskedArray>(ak::Identities::none(), p, make_index<int8_t>(m, r), c.array, r.coin()), spec};
    }
    case 8: {  // BitMaskedArray
      std::vector<int64_t> m; for (int64_t i = 0; i < (L + 7) / 8 + r.range(2); i++) m.push_back(r.range(256));
      Gen c; do { c = gen(r, o, L + r.range(3), depth - 1); } while (c.spec->kind == "option");
      auto spec = std::make_shared<Spec>(); spec->kind = "option"; spec->kids.push_back(c.spec);
      ak::util::Parameters p = random_params(r, o, "option"); spec->hasparams = !p.empty();
      return Gen{std::make_shared<ak::BitMaskedArray>(ak::Identities::none(), p, make_index<uint8_t>(m, r), c.array, r.coin(), L, r.coin()), spec};
    }
    case 9: {  // UnmaskedArray
      Gen c; do { c = gen(r, o, L, depth - 1); } while (c.spec->kind == "option");
      auto spec = std::make_shared<Spec>(); spec->kind = "option"; spec->kids.push_back(c.spec);
      ak::util::Parameters p = random_params(r, o, "option"); spec->hasparams = !p.empty();
      return Gen{std::make_shared<ak::UnmaskedArray>(ak::Identities::none(), p, c.array), spec};
    }
    case 10: {  // UnionArray
      if (!o.unions) return gen_numpy(r, o, L);
      int k = 1 + (int)r.range(3);
      std::vector<int64_t> lens; for (int i = 0; i < k; i++) lens.push_back(1 + r.range(4));
      std::vector<int64_t> tags, idx;
      for (int64_t i = 0; i < L; i++) { int64_t t = r.range(k); tags.push_back(t); idx.push_back(r.range(lens[(size_t)t])); }
      ak::ContentPtrVec contents;
      auto spec = std::make_shared<Spec>(); spec->kind = "union";
      for (int i = 0; i < k; i++) { Gen c; do { c = gen(r, o, lens[(size_t)i], depth - 1); } while (c.spec->kind == "union"); contents.push_back(c.array); spec->kids.push_back(c.spec); }
      ak::util::Parameters p = random_params(r, o, "union"); spec->hasparams = !p.empty();
      ak::ContentPtr a;
      switch (r.range(3)) {
        case 0: a = std::make_shared<ak::UnionArray8_32>(ak::Identities::none(), p, make_index<int8_t>(tags, r), make_index<int32_t>(idx, r), contents); break;
        case 1: a = std::make_shared<ak::UnionArray8_U32>(ak::Identities::none(), p, make_index<int8_t>(tags, r), make_index<uint32_t>(idx, r), contents); break;
        default: a = std::make_shared<ak::UnionArray8_64>(ak::Identities::none(), p, make_index<int8_t>(tags, r), make_index<int64_t>(idx, r), contents); break;
      }
      return Gen{a, spec};
    }
    case 11: case 12: {  // RecordArray
      int k = (int)r.range(4);
      bool tuple = r.coin(35);
      auto spec = std::make_shared<Spec>(); spec->kind = "record"; spec->istuple = tuple;
      ak::ContentPtrVec contents;
      ak::util::RecordLookupPtr lookup(nullptr);
      if (!tuple) lookup = std::make_shared<ak::util::RecordLookup>();
      static const char* names[] = {"x", "y", "\xce\xb6", "a b", "q\"uote", "0", "1", "back\\slash", "", "new\nline"};
      std::set<std::string> used;
      for (int i = 0; i < k; i++) {
        Gen c = gen(r, o, L + r.range(3), depth - 1);
        contents.push_back(c.array); spec->kids.push_back(c.spec);
        if (!tuple) {
          std::string nm;
          do { nm = names[r.range(10)]; } while (used.count(nm));
          used.insert(nm); lookup->push_back(nm); spec->keys.push_back(nm);
        } else spec->keys.push_back(std::to_string(i));
      }
      ak::util::Parameters p = random_params(r, o, "record"); spec->hasparams = !p.empty();
      return Gen{std::make_shared<ak::RecordArray>(ak::Identities::none(), p, contents, lookup, L), spec};
    }
    default: {  // VirtualArray
      if (!o.virtuals) return gen_numpy(r, o, L);
      Gen c = gen(r, o, L + r.range(3), depth - 1);
      ak::Slice slice; slice.append(ak::SliceRange(0, L, 1)); slice.become_sealed();
      ak::FormPtr form(nullptr); if (r.coin(60)) form = c.array->form(true);
      int64_t len = r.coin(70) ? L : -1;
      ak::ArrayGeneratorPtr g = std::make_shared<ak::SliceGenerator>(form, len, c.array, slice);
      ak::ArrayCachePtr cache(nullptr); if (r.coin()) cache = std::make_shared<DictCache>();
      auto spec = std::make_shared<Spec>(); spec->kind = "virtual"; spec->kids.push_back(c.spec);
      ak::util::Parameters p = random_params(r, o, "virtual"); spec->hasparams = !p.empty();
      return Gen{std::make_shared<ak::VirtualArray>(ak::Identities::none(), p, g, cache), spec};
    }
  }
}

// ---------- reference semantics on the spec -----------------------------
static int64_t ref_purelist_depth(const SpecPtr& s) {
  if (s->isstring) return 1;
  if (s->kind == "numpy") return s->ndim;
  if (s->kind == "empty") return 1;
  if (s->kind == "record") return 1;
  if (s->kind == "list" || s->kind == "regular") { int64_t c = ref_purelist_depth(s->kids[0]); return c < 0 ? -1 : c + 1; }
  if (s->kind == "union") {
    int64_t d = ref_purelist_depth(s->kids[0]);
    for (auto& k : s->kids) if (ref_purelist_depth(k) != d) return -1;
    return d;
  }
  return ref_purelist_depth(s->kids[0]);
}
static std::pair<int64_t, int64_t> ref_minmax(const SpecPtr& s) {
  if (s->isstring) return {1, 1};
  if (s->kind == "numpy") return {s->ndim, s->ndim};
  if (s->kind == "empty") return {1, 1};
  if (s->kind == "list" || s->kind == "regular") { auto c = ref_minmax(s->kids[0]); return {c.first + 1, c.second + 1}; }
  if (s->kind == "record" || s->kind == "union") {
    if (s->kids.empty()) return {1, 1};
    int64_t mn = INT64_MAX, mx = 0;
    for (auto& k : s->kids) { auto c = ref_minmax(k); if (c.first < mn) mn = c.first; if (c.second > mx) mx = c.second; }
    return {mn, mx};
  }
  return ref_minmax(s->kids[0]);
}
static std::pair<bool, int64_t> ref_branch(const SpecPtr& s) {
  if (s->isstring) return {false, 1};
  if (s->kind == "numpy") return {false, s->ndim};
  if (s->kind == "empty") return {false, 1};
  if (s->kind == "list" || s->kind == "regular") { auto c = ref_branch(s->kids[0]); return {c.first, c.second + 1}; }
  if (s->kind == "record" || s->kind == "union") {
    if (s->kids.empty()) return {false, 1};
    bool any = false; int64_t mn = INT64_MAX; int64_t first = -1;
    for (auto& k : s->kids) { auto c = ref_branch(k); if (first == -1) first = c.second; if (c.first || c.second != first) any = true; if (c.second < mn) mn = c.second; }
    return {any, mn};
  }
  return ref_branch(s->kids[0]);
}
static bool ref_isregular(const SpecPtr& s) {
  if (s->isstring) return true;
  if (s->kind == "numpy" || s->kind == "empty" || s->kind == "record") return true;
  if (s->kind == "list") return false;
  if (s->kind == "union") { for (auto& k : s->kids) if (!ref_isregular(k)) return false; return true; }
  return ref_isregular(s->kids[0]);
}
static bool ref_anyparams(const SpecPtr& s) {
  if (s->hasparams) return true;
  for (auto& k : s->kids) if (ref_anyparams(k)) return true;
  return false;
}
static bool ref_hasunion(const SpecPtr& s) {
  if (s->kind == "union") return true;
  for (auto& k : s->kids) if (ref_hasunion(k)) return true;
  return false;
}
// number of fields / keys of the first record reached through lists/options (no unions on the way); -1 if none
static bool ref_record(const SpecPtr& s, SpecPtr& out, bool& through_union) {
  if (s->kind == "record") { out = s; return true; }
  if (s->kind == "numpy" || s->kind == "empty") return false;
  if (s->kind == "union") { through_union = true; return false; }
  return ref_record(s->kids[0], out, through_union);
}
// datashape string for parameter-free specs
static std::string ref_typestr(const SpecPtr& s) {
  if (s->kind == "numpy") { std::string out; for (auto d : s->inner) out += std::to_string(d) + " * "; return out + s->prim; }
  if (s->kind == "empty") return "unknown";
  if (s->kind == "list") return "var * " + ref_typestr(s->kids[0]);
  if (s->kind == "regular") return std::to_string(s->size) + " * " + ref_typestr(s->kids[0]);
  if (s->kind == "option") {
    const SpecPtr* c = &s->kids[0];
    while ((*c)->kind == "indexed" || (*c)->kind == "virtual") c = &(*c)->kids[0];
    bool islist = (*c)->kind == "list" || (*c)->kind == "regular" || ((*c)->kind == "numpy" && (*c)->ndim > 1);
    return islist ? "option[" + ref_typestr(s->kids[0]) + "]" : "?" + ref_typestr(s->kids[0]);
  }
  if (s->kind == "indexed" || s->kind == "virtual") return ref_typestr(s->kids[0]);
  if (s->kind == "union") { std::string out = "union["; for (size_t i = 0; i < s->kids.size(); i++) { if (i) out += ", "; out += ref_typestr(s->kids[i]); } return out + "]"; }
  if (s->kind == "record") {
    std::string out = s->istuple ? "(" : "{";
    for (size_t i = 0; i < s->kids.size(); i++) { if (i) out += ", "; if (!s->istuple) out += ak::util::quote(s->keys[i]) + ": "; out += ref_typestr(s->kids[i]); }
    return out + (s->istuple ? ")" : "}");
  }
  return "???";
}

// ---------- strict structural comparison of two Forms -----------------------------
static bool params_strict_equal(const ak::util::Parameters& a, const ak::util::Parameters& b) {
  if (a.size() != b.size()) return false;
  for (auto& kv : a) { auto it = b.find(kv.first); if (it == b.end()) return false; if (!ak::util::json_equals(kv.second, it->second)) return false; }
  return true;
}
static std::string form_diff(const ak::FormPtr& a, const ak::FormPtr& b, const std::string& path = "") {
  if (!a && !b) return "";
  if (!a || !b) return path + ": null vs non-null";
  if (typeid(*a) != typeid(*b)) return path + ": class differs";
  if (a->has_identities() != b->has_identities()) return path + ": has_identities differs";
  if (!params_strict_equal(a->parameters(), b->parameters())) return path + ": parameters differ";
  if (!a->form_key_equals(b->form_key())) return path + ": form_key differs";
  if (auto x = dynamic_cast<ak::NumpyForm*>(a.get())) { auto y = dynamic_cast<ak::NumpyForm*>(b.get());
    if (x->inner_shape() != y->inner_shape()) return path + ": inner_shape differs";
    if (x->itemsize() != y->itemsize()) return path + ": itemsize differs";
    if (x->format() != y->format()) return path + ": format differs (" + x->format() + " vs " + y->format() + ")";
    if (x->dtype() != y->dtype()) return path + ": dtype differs";
    return ""; }
  if (dynamic_cast<ak::EmptyForm*>(a.get())) return "";
  if (auto x = dynamic_cast<ak::ListForm*>(a.get())) { auto y = dynamic_cast<ak::ListForm*>(b.get());
    if (x->starts() != y->starts() || x->stops() != y->stops()) return path + ": starts/stops differ";
    return form_diff(x->content(), y->content(), path + ".content"); }
  if (auto x = dynamic_cast<ak::ListOffsetForm*>(a.get())) { auto y = dynamic_cast<ak::ListOffsetForm*>(b.get());
    if (x->offsets() != y->offsets()) return path + ": offsets differ";
    return form_diff(x->content(), y->content(), path + ".content"); }
  if (auto x = dynamic_cast<ak::RegularForm*>(a.get())) { auto y = dynamic_cast<ak::RegularForm*>(b.get());
    if (x->size() != y->size()) return path + ": size differs";
    return form_diff(x->content(), y->content(), path + ".content"); }
  if (auto x = dynamic_cast<ak::IndexedForm*>(a.get())) { auto y = dynamic_cast<ak::IndexedForm*>(b.get());
    if (x->index() != y->index()) return path + ": index differs";
    return form_diff(x->content(), y->content(), path + ".content"); }
  if (auto x = dynamic_cast<ak::IndexedOptionForm*>(a.get())) { auto y = dynamic_cast<ak::IndexedOptionForm*>(b.get());
    if (x->index() != y->index()) return path + ": index differs";
    return form_diff(x->content(), y->content(), path + ".content"); }
  if (auto x = dynamic_cast<ak::ByteMaskedForm*>(a.get())) { auto y = dynamic_cast<ak::ByteMaskedForm*>(b.get());
    if (x->mask() != y->mask() || x->valid_when() != y->valid_when()) return path + ": mask/valid_when differ";
    return form_diff(x->content(), y->content(), path + ".content"); }
  if (auto x = dynamic_cast<ak::BitMaskedForm*>(a.get())) { auto y = dynamic_cast<ak::BitMaskedForm*>(b.get());
    if (x->mask() != y->mask() || x->valid_when() != y->valid_when() || x->lsb_order() != y->lsb_order()) return path + ": mask/valid_when/lsb differ";
    return form_diff(x->content(), y->content(), path + ".content"); }
  if (auto x = dynamic_cast<ak::UnmaskedForm*>(a.get())) { auto y = dynamic_cast<ak::UnmaskedForm*>(b.get());
    return form_diff(x->content(), y->content(), path + ".content"); }
  if (auto x = dynamic_cast<ak::UnionForm*>(a.get())) { auto y = dynamic_cast<ak::UnionForm*>(b.get());
    if (x->tags() != y->tags() || x->index() != y->index()) return path + ": tags/index differ";
    if (x->contents().size() != y->contents().size()) return path + ": numcontents differ";
    for (size_t i = 0; i < x->contents().size(); i++) { std::string d = form_diff(x->contents()[i], y->contents()[i], path + ".contents[" + std::to_string(i) + "]"); if (!d.empty()) return d; }
    return ""; }
  if (auto x = dynamic_cast<ak::RecordForm*>(a.get())) { auto y = dynamic_cast<ak::RecordForm*>(b.get());
    if (x->istuple() != y->istuple()) return path + ": istuple differs";
    if (x->contents().size() != y->contents().size()) return path + ": numcontents differ";
    if (!x->istuple() && *x->recordlookup() != *y->recordlookup()) return path + ": keys differ";
    for (size_t i = 0; i < x->contents().size(); i++) { std::string d = form_diff(x->contents()[i], y->contents()[i], path + ".contents[" + std::to_string(i) + "]"); if (!d.empty()) return d; }
    return ""; }
  if (auto x = dynamic_cast<ak::VirtualForm*>(a.get())) { auto y = dynamic_cast<ak::VirtualForm*>(b.get());
    if (x->has_length() != y->has_length()) return path + ": has_length differs";
    return form_diff(x->form(), y->form(), path + ".form"); }
  return path + ": unknown form class";
}
