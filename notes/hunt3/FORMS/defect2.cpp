// defect2: a NumpyForm of datetime64/timedelta64 loses its units in Form -> JSON -> Form, in the verbose form too.
// Form::tojson writes "format":"M8[ns]" AND "primitive":"datetime64"; fromjson_part (Content.cpp:316-322) looks at
// "primitive" first and rebuilds the format with util::dtype_to_format(dtype) = "M" (no units); the compact string
// form "datetime64" (used for nested parameter-less nodes) has no place for units at all.
// (Related to the already known loss of 'q' vs 'l'; here the lost information changes the meaning of the data and
// Form::equal(original, reread) is false.)
#include "gen.h"
int main() {
  int bad = 0;
  const char* formats[] = {"M8[ns]", "m8[s]", "M8[10us]"};
  for (const char* fmt : formats) {
    ak::util::dtype dt = fmt[0] == 'M' ? ak::util::dtype::datetime64 : ak::util::dtype::timedelta64;
    ak::ContentPtr a = std::make_shared<ak::NumpyArray>(ak::Identities::none(), ak::util::Parameters(), buf(24),
        std::vector<ssize_t>({3}), std::vector<ssize_t>({8}), 0, 8, fmt, dt, ak::kernel::lib::cpu);
    ak::Index64 offsets(2); offsets.setitem_at_nowrap(0, 0); offsets.setitem_at_nowrap(1, 3);
    ak::ContentPtr list = std::make_shared<ak::ListOffsetArray64>(ak::Identities::none(), ak::util::Parameters(), offsets, a);
    for (ak::ContentPtr x : {a, list}) for (int verbose = 0; verbose < 2; verbose++) {
      ak::FormPtr f = x->form(true);
      std::string js = f->tojson(false, verbose);
      ak::FormPtr f2 = ak::Form::fromjson(js);
      bool eq = f->equal(f2, true, true, true, false);
      std::string js2 = f2->tojson(false, verbose);
      std::cout << (eq && js == js2 ? "ok   " : "FAIL ") << js << "\n  -> " << js2 << "  Form::equal=" << eq << std::endl;
      if (!eq || js != js2) bad++;
    }
  }
  return bad ? 1 : 0;
}
