// defect1: Form::getitem_range() does not describe Content::getitem_range() when a BitMaskedForm sits below a
// RecordForm / RegularForm / ByteMaskedForm / UnmaskedForm / IndexedForm...: only BitMaskedForm overrides
// getitem_range() (-> ByteMaskedForm), every other Form returns shallow_copy() without recursing, whereas
// RecordArray / RegularArray / ByteMaskedArray / UnmaskedArray::getitem_range range-slice their contents, which turns
// a nested BitMaskedArray into a ByteMaskedArray.  Consequence: a lazily sliced VirtualArray with such a Form
// throws "generated array does not conform to expected form" when it is materialised.
#include "gen.h"

class ConstGenerator : public ak::ArrayGenerator {
 public:
  ConstGenerator(const ak::FormPtr& form, int64_t length, const ak::ContentPtr& a) : ak::ArrayGenerator(form, length), a_(a) {}
  const ak::ContentPtr generate() const override { return a_; }
  void caches(std::vector<ak::ArrayCachePtr>&) const override {}
  const std::string tostring_part(const std::string& i, const std::string& p, const std::string& q) const override { return i + p + "<ConstGenerator/>" + q; }
  const std::shared_ptr<ak::ArrayGenerator> shallow_copy() const override { return std::make_shared<ConstGenerator>(form_, length_, a_); }
  const std::shared_ptr<ak::ArrayGenerator> with_form(const ak::FormPtr& f) const override { return std::make_shared<ConstGenerator>(f, length_, a_); }
  const std::shared_ptr<ak::ArrayGenerator> with_length(int64_t n) const override { return std::make_shared<ConstGenerator>(form_, n, a_); }
  bool referentially_equal(const ak::ArrayGeneratorPtr& o) const override { return o.get() == this; }
 private:
  ak::ContentPtr a_;
};

int main() {
  int bad = 0;
  Rng r(1);
  GenOptions o; o.params = false;
  // x: BitMaskedArray of int64, length 5
  Gen num = gen_numpy(r, o, 8, ak::util::dtype::int64, true);
  ak::IndexU8 mask = make_index<uint8_t>({0x15}, r);
  ak::ContentPtr bit = std::make_shared<ak::BitMaskedArray>(ak::Identities::none(), ak::util::Parameters(), mask, num.array, true, 5, true);
  auto lookup = std::make_shared<ak::util::RecordLookup>(); lookup->push_back("x");
  ak::ContentPtr rec = std::make_shared<ak::RecordArray>(ak::Identities::none(), ak::util::Parameters(), ak::ContentPtrVec({bit}), lookup, 5);

  // (a) pure Form-level statement of the property
  ak::FormPtr predicted = rec->form(true)->getitem_range();
  ak::FormPtr actual = rec->getitem_range(1, 3)->form(true);
  std::cout << "predicted: " << predicted->tojson(false, false) << "\nactual:    " << actual->tojson(false, false) << std::endl;
  if (!predicted->equal(actual, true, true, false, true)) { std::cout << "FAIL: Form::getitem_range() != form of Content::getitem_range()" << std::endl; bad++; }

  // (b) the user-visible consequence: slicing a VirtualArray
  ak::ArrayGeneratorPtr g = std::make_shared<ConstGenerator>(rec->form(true), 5, rec);
  ak::ContentPtr virt = std::make_shared<ak::VirtualArray>(ak::Identities::none(), ak::util::Parameters(), g, ak::ArrayCachePtr(nullptr));
  try {
    std::cout << "virt        = " << virt->tojson(false, -1) << std::endl;
    ak::ContentPtr sl = virt->getitem_range(1, 3);
    std::string js = sl->tojson(false, -1);
    std::cout << "virt[1:3]   = " << js << std::endl;
    if (js != rec->getitem_range(1, 3)->tojson(false, -1)) { std::cout << "FAIL: wrong value" << std::endl; bad++; }
  }
  catch (std::exception& e) { std::cout << "FAIL: virt[1:3] threw: " << std::string(e.what()).substr(0, 60) << "..." << std::endl; bad++; }
  return bad;
}
