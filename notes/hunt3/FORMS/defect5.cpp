// defect5: Type::tostring() is not injective on what Type::equal distinguishes.
//  (a) a tuple RecordType with parameters {"__record__": "union"} prints `union[int64, float64]`, exactly the string
//      of UnionType(int64, float64) (re-parsing the string gives a UnionType): RecordType::tostring_part
//      (RecordType.cpp:56-82) refuses datashape keywords as record names, but the list lacks the words this very
//      printer uses as constructors: "union" ("tuple", "struct", "unknown" are missing as well).
//  (b) a named record type without fields prints `Name[]` both for a tuple and for a record ("()" vs "{}" when unnamed).
#include "gen.h"
int main() {
  int bad = 0;
  ak::util::TypeStrs none;
  ak::TypePtr rec = ak::Form::fromjson("{\"class\":\"RecordArray\",\"contents\":[\"int64\",\"float64\"],\"parameters\":{\"__record__\":\"union\"}}")->type(none);
  ak::TypePtr uni = ak::Form::fromjson("{\"class\":\"UnionArray8_64\",\"tags\":\"i8\",\"index\":\"i64\",\"contents\":[\"int64\",\"float64\"]}")->type(none);
  std::cout << "RecordType: " << rec->tostring() << "\nUnionType:  " << uni->tostring() << "\nequal: " << rec->equal(uni, true) << std::endl;
  if (rec->tostring() == uni->tostring() && !rec->equal(uni, true)) { std::cout << "FAIL (a): two unequal types print the same" << std::endl; bad++; }
  ak::TypePtr t0 = ak::Form::fromjson("{\"class\":\"RecordArray\",\"contents\":[],\"parameters\":{\"__record__\":\"Point\"}}")->type(none);
  ak::TypePtr r0 = ak::Form::fromjson("{\"class\":\"RecordArray\",\"contents\":{},\"parameters\":{\"__record__\":\"Point\"}}")->type(none);
  std::cout << "tuple:  " << t0->tostring() << "\nrecord: " << r0->tostring() << "\nequal: " << t0->equal(r0, true) << std::endl;
  if (t0->tostring() == r0->tostring() && !t0->equal(r0, true)) { std::cout << "FAIL (b): two unequal types print the same" << std::endl; bad++; }
  return bad ? 1 : 0;
}
