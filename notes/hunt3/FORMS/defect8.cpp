// defect8: Form::fromjson rejects JSON that Form::tojson wrote when an integer does not fit in 32 bits.
// fromjson_part tests `json["size"].IsInt()` (Content.cpp:460), `x.IsInt()` for inner_shape (Content.cpp:337) and
// `json["itemsize"].IsInt()` (Content.cpp:324) -- RapidJSON's IsInt() means "fits in int32" -- and then reads the value
// with GetInt64().  tojson writes them as int64.  A RegularArray of size 3e9 (e.g. 1 x 3e9 bytes) or an inner_shape
// dimension >= 2^31 therefore has a Form that does not survive Form -> JSON -> Form (the error message is the
// misleading "RegularArray is missing its 'size'").
#include "gen.h"
int main() {
  int bad = 0;
  ak::FormPtr i8 = ak::Form::fromjson("\"int8\"");
  std::vector<ak::FormPtr> forms;
  forms.push_back(std::make_shared<ak::RegularForm>(false, ak::util::Parameters(), ak::FormKey(nullptr), i8, 3000000000LL));
  forms.push_back(std::make_shared<ak::NumpyForm>(false, ak::util::Parameters(), ak::FormKey(nullptr), std::vector<int64_t>({3000000000LL}), 1, "b", ak::util::dtype::int8));
  for (auto f : forms) {
    std::string js = f->tojson(false, false);
    try { ak::FormPtr g = ak::Form::fromjson(js); bool eq = f->equal(g, true, true, true, false); std::cout << (eq ? "ok   " : "FAIL ") << js << std::endl; if (!eq) bad++; }
    catch (std::exception& e) { std::cout << "FAIL " << js << " -> fromjson threw: " << std::string(e.what()).substr(0, 60) << std::endl; bad++; }
  }
  return bad ? 1 : 0;
}
