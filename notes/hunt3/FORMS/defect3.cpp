// defect3: a NumpyForm whose format is not one of the known primitives (big-endian ">d", "O", "5s", "V12", ...)
// prints JSON that Form::fromjson rejects.  NumpyForm::tojson_part tests `p.empty()` to decide that there is no
// primitive name, but NumpyForm::primitive() = util::dtype_to_name(NOT_PRIMITIVE) returns "unknown", never "":
// the branch is dead, "primitive":"unknown" is written (and, nested without parameters, the whole node is written
// as the bare string "unknown"), and fromjson_part throws "JSON cannot be recognized as a Form".
#include "gen.h"
int main() {
  int bad = 0;
  const char* formats[] = {">d", "O", "5s"};
  for (const char* fmt : formats) {
    int64_t itemsize = 8;
    ak::util::dtype dt = ak::util::format_to_dtype(fmt, itemsize);   // NOT_PRIMITIVE on this (little-endian) machine
    ak::ContentPtr a = std::make_shared<ak::NumpyArray>(ak::Identities::none(), ak::util::Parameters(), buf(24),
        std::vector<ssize_t>({3}), std::vector<ssize_t>({8}), 0, itemsize, fmt, dt, ak::kernel::lib::cpu);
    ak::Index64 offsets(2); offsets.setitem_at_nowrap(0, 0); offsets.setitem_at_nowrap(1, 3);
    ak::ContentPtr list = std::make_shared<ak::ListOffsetArray64>(ak::Identities::none(), ak::util::Parameters(), offsets, a);
    for (ak::ContentPtr x : {a, list}) for (int verbose = 0; verbose < 2; verbose++) {
      ak::FormPtr f = x->form(true);
      std::string js = f->tojson(false, verbose);
      try {
        ak::FormPtr f2 = ak::Form::fromjson(js);
        bool eq = f->equal(f2, true, true, true, false);
        std::cout << (eq ? "ok   " : "FAIL ") << js << " -> " << f2->tojson(false, verbose) << std::endl;
        if (!eq) bad++;
      }
      catch (std::exception& e) { std::cout << "FAIL " << js << " -> fromjson threw: " << std::string(e.what()).substr(0, 40) << std::endl; bad++; }
    }
  }
  return bad ? 1 : 0;
}
