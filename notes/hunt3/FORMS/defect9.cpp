// defect9: Form::tojson emits text that is not JSON / drops data for two kinds of parameter values.
//  (a) NaN / Infinity (what Python's json.dumps writes for float('nan'), and what util::parameter_equals etc. accept,
//      they all parse with kParseNanAndInfFlag): copyjson() (io/json.cpp:51) calls writer.Double(NaN), which fails and
//      writes nothing, the return value is ignored -> `{"class":"EmptyArray","parameters":{"x":}}`, which
//      Form::fromjson cannot read.
//  (b) strings with an embedded NUL ("a\u0000b" is valid JSON): copyjson() uses writer.String(value.GetString())
//      and writer.Key(name.GetString()) without the length (io/json.cpp:55,67); fromjson_part builds keys/form_key
//      from GetString() as well -> everything after the NUL is silently lost.
#include "gen.h"
int main() {
  int bad = 0;
  const char* values[] = {"NaN", "[1.5, Infinity]", "\"a\\u0000b\""};
  for (const char* v : values) {
    ak::util::Parameters p; p["x"] = v;
    ak::FormPtr f = std::make_shared<ak::EmptyForm>(false, p, ak::FormKey(nullptr));
    std::string js = f->tojson(false, false);
    try {
      ak::FormPtr g = ak::Form::fromjson(js);
      bool same = ak::util::json_equals(g->parameter("x"), v) || (std::string(v) == "NaN" && g->parameter("x") == "NaN");
      std::cout << (same ? "ok   " : "FAIL ") << "x = " << v << "  tojson: " << js << "  reread x = " << g->parameter("x") << std::endl;
      if (!same) bad++;
    }
    catch (std::exception& e) { std::cout << "FAIL x = " << v << "  tojson: " << js << "  -> fromjson threw" << std::endl; bad++; }
  }
  return bad ? 1 : 0;
}
