// DEFECT 3 (low severity): the index-filling kernel recurses once per tuple position (depth n) when replacement is
// true; a large n overflows the C stack instead of giving a result or an error.
// Input: [[7]] (one list with one element), n = 200000, replacement = true.  There is exactly ONE tuple
// (7,7,...,7), i.e. the result is tiny: n carry buffers of one entry each.
// Expected: a list with one record of n fields (n = 50000 works and takes < 1 s) or an exception.
// Observed: SIGSEGV (stack exhaustion in awkward_ListArray_combinations_step).  Exit 0 iff result or exception.
#include "ck.h"
int main(int argc, char** argv) {
  int64_t n = argc > 1 ? atoll(argv[1]) : 200000;
  ak::ContentPtr lo = std::make_shared<ak::ListOffsetArray64>(noid(), nopar(), mkindex<int64_t>({0, 1}), numpy({7}));
  try {
    ak::ContentPtr out = lo->combinations(n, true, nullptr, nopar(), 1, 0);
    ak::ContentPtr first = out->getitem_at(0);
    if (first->length() != 1 || first->numfields() != n) { std::cout << "FAIL wrong shape" << std::endl; return 1; }
    std::cout << "ok: one tuple with " << first->numfields() << " fields" << std::endl;
  }
  catch (std::exception& e) { std::cout << "ok: exception " << e.what() << std::endl; }
  return 0;
}
