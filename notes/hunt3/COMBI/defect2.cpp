// DEFECT 2: the number of combinations is computed with unchecked int64 arithmetic; when the total (or total*8 bytes)
// wraps, the carry buffers are allocated with the wrapped size and the index-filling kernel then writes the real
// number of tuples -> write through nullptr / heap overflow instead of an error.
//
// Input: a perfectly valid ListArray64 of 41895 (overlapping) lists over a 200-element content, n = 8, no replacement.
// The per-list counts C(len, 8) are all exact; their sum is 2^61 + 2, so totallen*sizeof(int64_t) == 2^64 + 16 == 16.
// Expected: an exception (the result cannot be represented / allocated).  Observed: SIGSEGV (valgrind: invalid write).
// Exit 0 iff an exception is thrown.
#include "ck.h"

int main() {
  const int64_t n = 8;
  // (list length, how many lists): sum_k count*C(len,8) == 2^61 + 2
  const int64_t plan[][2] = {{200, 41849}, {120, 6}, {80, 2}, {60, 7}, {45, 3}, {35, 3}, {28, 6}, {18, 4}, {15, 4}, {13, 1}, {11, 6}, {9, 2}, {8, 2}};
  std::vector<int64_t> starts, stops;
  for (auto& p : plan) for (int64_t k = 0; k < p[1]; k++) { starts.push_back(0); stops.push_back(p[0]); }
  std::vector<int64_t> xs; for (int64_t i = 0; i < 200; i++) xs.push_back(i);
  ak::ContentPtr array = std::make_shared<ak::ListArray64>(noid(), nopar(), mkindex<int64_t>(starts), mkindex<int64_t>(stops), numpy(xs));
  if (!array->validityerror("array").empty()) { std::cout << "invalid input?!" << std::endl; return 3; }

  // check the claimed total with 128-bit arithmetic
  __int128 total = 0;
  for (size_t i = 0; i < starts.size(); i++) {
    __int128 c = 1; int64_t len = stops[i] - starts[i];
    for (int64_t j = 1; j <= n; j++) { c = c * (len - j + 1) / j; }
    total += c;
  }
  std::cout << "lists: " << starts.size() << ", true number of tuples = 2^61 + " << (int64_t)(total - ((__int128)1 << 61)) << std::endl;

  try {
    ak::ContentPtr out = array->combinations(n, false, nullptr, nopar(), 1, 0);
    std::cout << "FAIL: returned an array of length " << out->length() << " without error" << std::endl;
    return 1;
  }
  catch (std::exception& e) {
    std::cout << "ok: exception: " << e.what() << std::endl;
    return 0;
  }
}
