// Random differential test: random layouts x axis x n x replacement vs itertools reference.
#include "ck.h"
#include "awkward/array/VirtualArray.h"
#include "awkward/virtual/ArrayGenerator.h"
#include "awkward/Slice.h"

struct G { ak::ContentPtr c; std::vector<V> m; int64_t mindepth; std::string desc; };

static std::mt19937_64 rng;
static int64_t R(int64_t lo, int64_t hi) { return lo + (int64_t)(rng() % (uint64_t)(hi - lo + 1)); }
static int64_t counter = 0;
static bool allow_records = true, allow_unions = true, allow_options = true, no_union_next = false, allow_virtual = false;

static G gen(int64_t lists, int64_t length, bool optionok);

static G gen_leaf(int64_t length) {
  G g; std::vector<int64_t> xs;
  int64_t kind = R(0, 3);
  if (kind == 0 && length == 0) {
    g.c = std::make_shared<ak::EmptyArray>(noid(), nopar()); g.mindepth = 1; g.desc = "Empty"; return g;
  }
  if (kind == 1) {
    // strided 1-D numpy
    int64_t stride = R(1, 3), off = R(0, 2);
    std::vector<int64_t> buf((size_t)(off + length * stride + 1), -777);
    for (int64_t i = 0; i < length; i++) { int64_t v = counter++; buf[(size_t)(off + i * stride)] = v; g.m.push_back(V::number(v)); }
    g.c = numpy_nd(buf, {(ssize_t)length}, {(ssize_t)(8 * stride)}, (ssize_t)(8 * off));
    g.mindepth = 1; g.desc = "NpStrided"; return g;
  }
  for (int64_t i = 0; i < length; i++) { int64_t v = counter++; xs.push_back(v); g.m.push_back(V::number(v)); }
  g.c = numpy(xs); g.mindepth = 1; g.desc = "Np"; return g;
}

template <typename T>
static G gen_listoffset(int64_t lists, int64_t length) {
  std::vector<int64_t> offs; int64_t cur = R(0, 3); offs.push_back(cur);
  for (int64_t i = 0; i < length; i++) { int64_t r = R(0, 9); int64_t len = r < 2 ? 0 : (r < 8 ? R(1, 4) : R(5, 7)); cur += len; offs.push_back(cur); }
  G child = gen(lists - 1, cur + R(0, 3), true);
  G g;
  for (int64_t i = 0; i < length; i++) {
    std::vector<V> xs(child.m.begin() + offs[(size_t)i], child.m.begin() + offs[(size_t)i + 1]);
    g.m.push_back(V::list(xs));
  }
  g.c = std::make_shared<ak::ListOffsetArrayOf<T>>(noid(), nopar(), mkindex<T>(offs), child.c);
  g.mindepth = child.mindepth + 1; g.desc = "LO" + std::to_string(sizeof(T) * 8) + "(" + child.desc + ")";
  return g;
}
template <typename T>
static G gen_list(int64_t lists, int64_t length) {
  int64_t clen = R(0, 12);
  std::vector<int64_t> starts, stops;
  for (int64_t i = 0; i < length; i++) {
    int64_t a = R(0, clen), b = R(0, clen); if (a > b) std::swap(a, b);
    if (R(0, 4) == 0) b = a;
    if (b - a > 7) b = a + 7;
    starts.push_back(a); stops.push_back(b);
  }
  if (length == 0) clen = R(0, 3);
  G child = gen(lists - 1, clen, true);
  G g;
  for (int64_t i = 0; i < length; i++) {
    std::vector<V> xs(child.m.begin() + starts[(size_t)i], child.m.begin() + stops[(size_t)i]);
    g.m.push_back(V::list(xs));
  }
  g.c = std::make_shared<ak::ListArrayOf<T>>(noid(), nopar(), mkindex<T>(starts), mkindex<T>(stops), child.c);
  g.mindepth = child.mindepth + 1; g.desc = "LA" + std::to_string(sizeof(T) * 8) + "(" + child.desc + ")";
  return g;
}
static G gen_regular(int64_t lists, int64_t length) {
  int64_t size = R(0, 5);
  G child = gen(lists - 1, length * size + (size == 0 ? 0 : R(0, size - 1)) , true);
  G g;
  for (int64_t i = 0; i < length; i++) {
    std::vector<V> xs(child.m.begin() + i * size, child.m.begin() + (i + 1) * size);
    g.m.push_back(V::list(xs));
  }
  g.c = std::make_shared<ak::RegularArray>(noid(), nopar(), child.c, size, length);
  g.mindepth = child.mindepth + 1; g.desc = "Reg" + std::to_string(size) + "(" + child.desc + ")";
  return g;
}
static G gen_numpy2d(int64_t length) {
  // 2-D NumpyArray, maybe strided / transposed-like
  int64_t size = R(0, 4);
  int64_t s1 = R(1, 2), s0 = size * s1 + R(0, 2), off = R(0, 2);
  if (s0 == 0) s0 = 1;
  std::vector<int64_t> buf((size_t)(off + length * s0 + size * s1 + 1), -777);
  G g;
  for (int64_t i = 0; i < length; i++) {
    std::vector<V> xs;
    for (int64_t j = 0; j < size; j++) { int64_t v = counter++; buf[(size_t)(off + i * s0 + j * s1)] = v; xs.push_back(V::number(v)); }
    g.m.push_back(V::list(xs));
  }
  g.c = numpy_nd(buf, {(ssize_t)length, (ssize_t)size}, {(ssize_t)(8 * s0), (ssize_t)(8 * s1)}, (ssize_t)(8 * off));
  g.mindepth = 2; g.desc = "Np2d[" + std::to_string(size) + "]";
  return g;
}
template <typename T>
static G gen_indexed(int64_t lists, int64_t length) {
  int64_t clen = R(length == 0 ? 0 : 1, length + 3);
  G child = gen(lists, clen, false);
  std::vector<int64_t> idx; G g;
  for (int64_t i = 0; i < length; i++) { int64_t j = R(0, clen - 1); idx.push_back(j); g.m.push_back(child.m[(size_t)j]); }
  g.c = std::make_shared<ak::IndexedArrayOf<T, false>>(noid(), nopar(), mkindex<T>(idx), child.c);
  g.mindepth = child.mindepth; g.desc = "Idx" + std::to_string(sizeof(T) * 8) + "(" + child.desc + ")";
  return g;
}
template <typename T>
static G gen_indexedoption(int64_t lists, int64_t length) {
  int64_t clen = R(length == 0 ? 0 : 1, length + 3);
  G child = gen(lists, clen, false);
  std::vector<int64_t> idx; G g;
  for (int64_t i = 0; i < length; i++) {
    if (R(0, 2) == 0) { idx.push_back(-R(1, 3)); g.m.push_back(V::null()); }
    else { int64_t j = R(0, clen - 1); idx.push_back(j); g.m.push_back(child.m[(size_t)j]); }
  }
  g.c = std::make_shared<ak::IndexedArrayOf<T, true>>(noid(), nopar(), mkindex<T>(idx), child.c);
  g.mindepth = child.mindepth; g.desc = "IdxOpt" + std::to_string(sizeof(T) * 8) + "(" + child.desc + ")";
  return g;
}
static G gen_bytemasked(int64_t lists, int64_t length) {
  G child = gen(lists, length + R(0, 2), false);
  bool vw = R(0, 1); std::vector<int64_t> mask; G g;
  for (int64_t i = 0; i < length; i++) { bool valid = R(0, 2) != 0; mask.push_back(valid == vw ? 1 : 0); g.m.push_back(valid ? child.m[(size_t)i] : V::null()); }
  g.c = std::make_shared<ak::ByteMaskedArray>(noid(), nopar(), mkindex<int8_t>(mask), child.c, vw);
  g.mindepth = child.mindepth; g.desc = "ByteM(" + child.desc + ")";
  return g;
}
static G gen_bitmasked(int64_t lists, int64_t length) {
  G child = gen(lists, length + R(0, 2), false);
  bool vw = R(0, 1), lsb = R(0, 1); int64_t nbytes = (length + 7) / 8 + R(0, 1);
  std::vector<int64_t> mask((size_t)nbytes, 0); G g;
  for (int64_t i = 0; i < nbytes * 8; i++) {
    bool valid = R(0, 2) != 0;
    if (valid == vw) mask[(size_t)(i / 8)] |= (lsb ? (1 << (i % 8)) : (128 >> (i % 8)));
    if (i < length) g.m.push_back(valid ? child.m[(size_t)i] : V::null());
  }
  g.c = std::make_shared<ak::BitMaskedArray>(noid(), nopar(), mkindex<uint8_t>(mask), child.c, vw, length, lsb);
  g.mindepth = child.mindepth; g.desc = "BitM(" + child.desc + ")";
  return g;
}
static G gen_unmasked(int64_t lists, int64_t length) {
  G child = gen(lists, length, false);
  G g; g.m = child.m;
  g.c = std::make_shared<ak::UnmaskedArray>(noid(), nopar(), child.c);
  g.mindepth = child.mindepth; g.desc = "Unm(" + child.desc + ")";
  return g;
}
static G gen_record(int64_t lists, int64_t length) {
  int64_t nf = R(0, 2);
  bool tuple = R(0, 1);
  std::vector<G> ch; ak::ContentPtrVec contents; std::vector<std::string> keys;
  G g; g.mindepth = 1000; g.desc = "Rec{";
  for (int64_t f = 0; f < nf; f++) {
    ch.push_back(gen(R(lists == 0 ? 0 : (lists - 1 > 0 ? lists - 1 : lists), lists), length + R(0, 2), true));
    contents.push_back(ch.back().c);
    keys.push_back(tuple ? std::to_string(f) : std::string(1, (char)('x' + f)));
    g.mindepth = std::min(g.mindepth, ch.back().mindepth); g.desc += ch.back().desc + ";";
  }
  if (nf == 0) g.mindepth = 1;
  g.desc += "}";
  for (int64_t i = 0; i < length; i++) {
    std::vector<V> fs; for (auto& c : ch) fs.push_back(c.m[(size_t)i]);
    g.m.push_back(V::rec(keys, fs));
  }
  ak::util::RecordLookupPtr lookup(nullptr);
  if (!tuple) lookup = std::make_shared<ak::util::RecordLookup>(keys);
  g.c = std::make_shared<ak::RecordArray>(noid(), nopar(), contents, lookup, length);
  return g;
}
template <typename I>
static G gen_union(int64_t lists, int64_t length) {
  // two contents of different types: lists-deep numbers vs records of that
  no_union_next = true;
  G a = gen(lists, R(0, length + 2), true);
  bool save = allow_unions; allow_unions = false;
  G b = gen_record(lists, R(0, length + 2));
  allow_unions = save;
  G g; std::vector<int64_t> tags, idx;
  for (int64_t i = 0; i < length; i++) {
    int64_t t = R(0, 1);
    if (t == 0 && a.m.empty()) t = 1;
    if (t == 1 && b.m.empty()) t = 0;
    if (a.m.empty() && b.m.empty()) throw std::runtime_error("regen");
    G& s = t ? b : a;
    int64_t j = R(0, (int64_t)s.m.size() - 1);
    tags.push_back(t); idx.push_back(j); g.m.push_back(s.m[(size_t)j]);
  }
  ak::ContentPtrVec contents({a.c, b.c});
  g.c = std::make_shared<ak::UnionArrayOf<int8_t, I>>(noid(), nopar(), mkindex<int8_t>(tags), mkindex<I>(idx), contents);
  g.mindepth = std::min(a.mindepth, b.mindepth); g.desc = "Un" + std::to_string(sizeof(I) * 8) + "(" + a.desc + "|" + b.desc + ")";
  return g;
}

static G gen_virtual(int64_t lists, int64_t length, bool optionok) {
  G child = gen(lists, length, optionok);
  if (dynamic_cast<ak::VirtualArray*>(child.c.get())) return child;
  ak::Slice slice; slice.append(std::make_shared<ak::SliceRange>(ak::Slice::none(), ak::Slice::none(), 1)); slice.become_sealed();
  bool withform = R(0, 1) && child.desc.compare(0, 4, "BitM") != 0;
  ak::ArrayGeneratorPtr g2 = std::make_shared<ak::SliceGenerator>(withform ? child.c->form(true) : ak::FormPtr(nullptr), withform || R(0,1) ? length : -1, child.c, slice);
  G g; g.m = child.m; g.mindepth = child.mindepth; g.desc = "Virt(" + child.desc + ")";
  g.c = std::make_shared<ak::VirtualArray>(noid(), nopar(), g2, ak::ArrayCachePtr(nullptr));
  return g;
}

static G gen(int64_t lists, int64_t length, bool optionok) {
  bool nounion = no_union_next; no_union_next = false;
  if (allow_virtual && !nounion && R(0, 19) == 0) return gen_virtual(lists, length, optionok);
  for (;;) {
    int64_t r = R(0, 99);
    if (r < 14 && optionok && allow_options) {
      switch (R(0, 7)) {
        case 0: return gen_indexed<int32_t>(lists, length);
        case 1: return gen_indexed<uint32_t>(lists, length);
        case 2: return gen_indexed<int64_t>(lists, length);
        case 3: return gen_indexedoption<int32_t>(lists, length);
        case 4: return gen_indexedoption<int64_t>(lists, length);
        case 5: return gen_bytemasked(lists, length);
        case 6: return gen_bitmasked(lists, length);
        default: return gen_unmasked(lists, length);
      }
    }
    if (r < 20 && allow_records) return gen_record(lists, length);
    if (r < 25 && allow_unions && !nounion && length > 0) {
      try { return R(0, 1) ? gen_union<int32_t>(lists, length) : gen_union<int64_t>(lists, length); }
      catch (std::runtime_error&) { continue; }
    }
    if (lists == 0) return gen_leaf(length);
    if (lists == 1 && R(0, 6) == 0) return gen_numpy2d(length);
    switch (R(0, 6)) {
      case 0: return gen_listoffset<int32_t>(lists, length);
      case 1: return gen_listoffset<uint32_t>(lists, length);
      case 2: return gen_listoffset<int64_t>(lists, length);
      case 3: return gen_list<int32_t>(lists, length);
      case 4: return gen_list<uint32_t>(lists, length);
      case 5: return gen_list<int64_t>(lists, length);
      default: return gen_regular(lists, length);
    }
  }
}

int main(int argc, char** argv) {
  int64_t ntrials = argc > 1 ? atoll(argv[1]) : 2000;
  uint64_t seed = argc > 2 ? (uint64_t)atoll(argv[2]) : 1;
  int64_t mode = argc > 3 ? atoll(argv[3]) : 0;   // 1: pure lists only (allows negative axis)
  if (mode == 1) { allow_records = false; allow_unions = false; }
  if (mode == 2 || mode == 1) allow_virtual = true;
  int64_t done = 0;
  for (int64_t t = 0; t < ntrials; t++) {
    rng.seed(seed * 1000003 + (uint64_t)t);
    counter = 100;
    int64_t lists = R(0, 3);
    int64_t length = R(0, 9) == 0 ? 0 : R(1, 6);
    G g = gen(lists, length, true);
    int64_t axis = R(0, g.mindepth - 1);
    int64_t nchoices[] = {1, 2, 2, 3, 3, 4, 5};
    int64_t n = nchoices[R(0, 6)];
    bool repl = R(0, 1);
    bool usekeys = R(0, 1);
    std::vector<std::string> keys = tuplekeys(n);
    ak::util::RecordLookupPtr lookup(nullptr);
    if (usekeys) { for (auto& k : keys) k = "k" + k; lookup = std::make_shared<ak::util::RecordLookup>(keys); }
    int64_t useaxis = axis;
    if (mode == 1 && R(0, 1)) {
      // negative axis: all branches have the same depth in pure-list mode
      useaxis = axis - g.mindepth;
    }
    std::string label = "trial " + std::to_string(t) + " seed " + std::to_string(seed) + " " + g.desc + " axis=" + std::to_string(useaxis)
      + " n=" + std::to_string(n) + " repl=" + std::to_string(repl) + " input=" + json(g.m);
    std::string expected, got;
    try {
      expected = json(ref_combinations(g.m, n, repl, keys, axis));
    } catch (std::exception& e) { std::cout << "model error " << e.what() << " " << label << std::endl; return 2; }
    // sanity: input layout prints like the model
    try {
      std::string in = g.c->tojson(false, 1);
      if (in != json(g.m)) { std::cout << "GENERATOR MISMATCH " << label << "\n  layout: " << in << std::endl; failures++; continue; }
      std::string verr = g.c->validityerror("layout");
      if (!verr.empty()) { std::cout << "INVALID LAYOUT " << verr << " " << label << std::endl; failures++; continue; }
      ak::util::Parameters pars; pars["__record__"] = "\"combo\"";
      ak::ContentPtr out = g.c->combinations(n, repl, lookup, pars, useaxis, 0);
      got = out->tojson(false, 1);
      std::string verr2 = out->validityerror("out");
      if (!verr2.empty()) { std::cout << "INVALID OUTPUT " << verr2 << " " << label << std::endl; failures++; }
    } catch (std::exception& e) { got = std::string("EXCEPTION: ") + e.what(); }
    check(label, got, expected);
    done++;
    if (failures > 15) break;
  }
  std::cout << "trials " << done << " failures " << failures << std::endl;
  return failures ? 1 : 0;
}
