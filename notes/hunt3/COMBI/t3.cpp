// Negative axis on records whose fields have different depths, nested below lists.
#include "ck.h"

int main() {
  // x: [[1,2,3],[4,5]] , [[6,7]]      y: [10,11,12], [13,14]
  ak::ContentPtr xin = std::make_shared<ak::ListOffsetArray64>(noid(), nopar(), mkindex<int64_t>({0, 3, 5, 7}), numpy({1, 2, 3, 4, 5, 6, 7}));
  ak::ContentPtr x = std::make_shared<ak::ListOffsetArray64>(noid(), nopar(), mkindex<int64_t>({0, 2, 3}), xin);
  ak::ContentPtr y = std::make_shared<ak::ListOffsetArray64>(noid(), nopar(), mkindex<int64_t>({0, 3, 5}), numpy({10, 11, 12, 13, 14}));
  ak::util::RecordLookupPtr lookup = std::make_shared<ak::util::RecordLookup>(std::vector<std::string>({"x", "y"}));
  ak::ContentPtr rec = std::make_shared<ak::RecordArray>(noid(), nopar(), ak::ContentPtrVec({x, y}), lookup);
  std::cout << "rec = " << rec->tojson(false, 1) << std::endl;
  std::string expect_rec = "[{\"x\":[[{\"0\":1,\"1\":2},{\"0\":1,\"1\":3},{\"0\":2,\"1\":3}],[{\"0\":4,\"1\":5}]],\"y\":[{\"0\":10,\"1\":11},{\"0\":10,\"1\":12},{\"0\":11,\"1\":12}]},"
                           "{\"x\":[[{\"0\":6,\"1\":7}]],\"y\":[{\"0\":13,\"1\":14}]}]";
  // at the root: works (axis -1 = innermost list of each field)
  try {
    std::string got = rec->combinations(2, false, nullptr, nopar(), -1, 0)->tojson(false, 1);
    check("record at root, axis=-1", got, expect_rec);
  } catch (std::exception& e) { check("record at root, axis=-1", std::string("EXC ") + e.what(), expect_rec); }

  // the same records inside one list: [[rec0, rec1]]
  ak::ContentPtr outer = std::make_shared<ak::ListOffsetArray64>(noid(), nopar(), mkindex<int64_t>({0, 2}), rec);
  std::cout << "outer = " << outer->tojson(false, 1) << std::endl;
  try {
    std::string got = outer->combinations(2, false, nullptr, nopar(), -1, 0)->tojson(false, 1);
    check("records in list, axis=-1", got, "[" + expect_rec + "]");
  } catch (std::exception& e) { check("records in list, axis=-1", std::string("EXC ") + e.what(), "[" + expect_rec + "]"); }

  // the same inside an option: [rec0, None, rec1] -> option node forwards depth unchanged: fine
  ak::ContentPtr opt = std::make_shared<ak::IndexedOptionArray64>(noid(), nopar(), mkindex<int64_t>({0, -1, 1}), rec);
  try {
    std::string got = opt->combinations(2, false, nullptr, nopar(), -1, 0)->tojson(false, 1);
    std::cout << "opt -> " << got << std::endl;
  } catch (std::exception& e) { std::cout << "opt EXC " << e.what() << std::endl; }

  // for comparison: num(axis=-1) and localindex(-1) on the same (same pattern?)
  try { std::cout << "num(-1) outer = " << outer->num(-1, 0)->tojson(false, 1) << std::endl; } catch (std::exception& e) { std::cout << "num EXC " << e.what() << std::endl; }
  try { std::cout << "localindex(-1) outer = " << outer->localindex(-1, 0)->tojson(false, 1) << std::endl; } catch (std::exception& e) { std::cout << "localindex EXC " << e.what() << std::endl; }
  return failures ? 1 : 0;
}
