// DEFECT 2 (second site): RegularArray::combinations computes totallen = combinationslen * length() and
// totallen * sizeof(int64_t) without overflow checks.
// Input: a valid RegularArray of size 10 and length 2^59+1 whose content is a RegularArray of size 0 (zero-length
// lists cost no memory, zeros_length = 10*(2^59+1) < 2^63).  n = 5: C(10,5) = 252 per row, so
// totallen = 252*(2^59+1) wraps and totallen*8 == 2016 (mod 2^64): each carry buffer gets 2016 bytes while the kernel
// is asked to fill 2^59+1 rows.  Expected: exception.  Observed: heap overflow -> SIGSEGV / valgrind invalid write.
// Exit 0 iff an exception is thrown.
#include "ck.h"
int main() {
  const int64_t L = ((int64_t)1 << 59) + 1;
  ak::ContentPtr empty = std::make_shared<ak::EmptyArray>(noid(), nopar());
  ak::ContentPtr inner = std::make_shared<ak::RegularArray>(noid(), nopar(), empty, 0, 10 * L);
  ak::ContentPtr array = std::make_shared<ak::RegularArray>(noid(), nopar(), inner, 10, L);
  std::string v = array->validityerror("array");
  std::cout << "length " << array->length() << " validityerror: '" << v << "'" << std::endl;
  if (!v.empty() || array->length() != L) return 3;
  try {
    ak::ContentPtr out = array->combinations(5, false, nullptr, nopar(), 1, 0);
    std::cout << "FAIL: returned length " << out->length() << std::endl;
    return 1;
  }
  catch (std::exception& e) { std::cout << "ok: exception: " << e.what() << std::endl; return 0; }
}
