// DEFECT 1: a negative axis is resolved relative to the node at which the branch depths first become uniform,
// but is then compared with the ABSOLUTE depth of that node.  When records (or unions) whose fields have different
// depths sit below at least one list level, combinations(axis=-1) picks the wrong level.
//
// Input:  [[{"x":[[1,2,3],[4,5]],"y":[10,11,12]},{"x":[[6,7]],"y":[13,14]}]]   (ListOffsetArray64 of RecordArray)
// combinations(2, axis=-1) must give per field the pairs of the innermost lists - exactly what the same RecordArray
// gives when it is the root (checked first) and what an explicit per-field positive axis gives.
// Observed: exception "len(field(1)) < len(recordarray)" (field y is combined at axis 0 of the record array),
// with other shapes a silently wrong level.  Exit 0 iff nested result == root result wrapped in one list.
#include "ck.h"

int main() {
  ak::ContentPtr xin = std::make_shared<ak::ListOffsetArray64>(noid(), nopar(), mkindex<int64_t>({0, 3, 5, 7}), numpy({1, 2, 3, 4, 5, 6, 7}));
  ak::ContentPtr x = std::make_shared<ak::ListOffsetArray64>(noid(), nopar(), mkindex<int64_t>({0, 2, 3}), xin);
  ak::ContentPtr y = std::make_shared<ak::ListOffsetArray64>(noid(), nopar(), mkindex<int64_t>({0, 3, 5}), numpy({10, 11, 12, 13, 14}));
  ak::util::RecordLookupPtr lookup = std::make_shared<ak::util::RecordLookup>(std::vector<std::string>({"x", "y"}));
  ak::ContentPtr rec = std::make_shared<ak::RecordArray>(noid(), nopar(), ak::ContentPtrVec({x, y}), lookup);
  ak::ContentPtr outer = std::make_shared<ak::ListOffsetArray64>(noid(), nopar(), mkindex<int64_t>({0, 2}), rec);

  const std::string expect_rec =
    "[{\"x\":[[{\"0\":1,\"1\":2},{\"0\":1,\"1\":3},{\"0\":2,\"1\":3}],[{\"0\":4,\"1\":5}]],\"y\":[{\"0\":10,\"1\":11},{\"0\":10,\"1\":12},{\"0\":11,\"1\":12}]},"
    "{\"x\":[[{\"0\":6,\"1\":7}]],\"y\":[{\"0\":13,\"1\":14}]}]";
  std::string got;
  try { got = rec->combinations(2, false, nullptr, nopar(), -1, 0)->tojson(false, 1); }
  catch (std::exception& e) { got = std::string("EXCEPTION ") + e.what(); }
  check("RecordArray at the root, axis=-1", got, expect_rec);

  try { got = outer->combinations(2, false, nullptr, nopar(), -1, 0)->tojson(false, 1); }
  catch (std::exception& e) { got = std::string("EXCEPTION ") + e.what(); }
  check("same RecordArray inside one list, axis=-1", got, "[" + expect_rec + "]");

  // second shape: silently wrong level.  x: three list levels, y: two list levels, records inside one list.
  {
    ak::ContentPtr x1 = std::make_shared<ak::ListOffsetArray64>(noid(), nopar(), mkindex<int64_t>({0, 3, 5}), numpy({1, 2, 3, 4, 5}));   // [1,2,3],[4,5]
    ak::ContentPtr x2 = std::make_shared<ak::ListOffsetArray64>(noid(), nopar(), mkindex<int64_t>({0, 2}), x1);                          // [[1,2,3],[4,5]]
    ak::ContentPtr x3 = std::make_shared<ak::ListOffsetArray64>(noid(), nopar(), mkindex<int64_t>({0, 1}), x2);                          // [[[1,2,3],[4,5]]]
    ak::ContentPtr y1 = std::make_shared<ak::ListOffsetArray64>(noid(), nopar(), mkindex<int64_t>({0, 2, 3}), numpy({10, 11, 12}));      // [10,11],[12]
    ak::ContentPtr y2 = std::make_shared<ak::ListOffsetArray64>(noid(), nopar(), mkindex<int64_t>({0, 2}), y1);                          // [[10,11],[12]]
    ak::ContentPtr rec2 = std::make_shared<ak::RecordArray>(noid(), nopar(), ak::ContentPtrVec({x3, y2}), lookup);
    ak::ContentPtr outer2 = std::make_shared<ak::ListOffsetArray64>(noid(), nopar(), mkindex<int64_t>({0, 1}), rec2);
    std::cout << "input 2: " << outer2->tojson(false, 1) << std::endl;
    const std::string expect2 = "[{\"x\":[[[{\"0\":1,\"1\":2},{\"0\":1,\"1\":3},{\"0\":2,\"1\":3}],[{\"0\":4,\"1\":5}]]],\"y\":[[{\"0\":10,\"1\":11}],[]]}]";
    try { got = rec2->combinations(2, false, nullptr, nopar(), -1, 0)->tojson(false, 1); }
    catch (std::exception& e) { got = std::string("EXCEPTION ") + e.what(); }
    check("RecordArray 2 at the root, axis=-1", got, expect2);
    try { got = outer2->combinations(2, false, nullptr, nopar(), -1, 0)->tojson(false, 1); }
    catch (std::exception& e) { got = std::string("EXCEPTION ") + e.what(); }
    check("RecordArray 2 inside one list, axis=-1 (silently wrong level)", got, "[" + expect2 + "]");
  }

  std::cout << (failures ? "DEFECT present" : "ok") << std::endl;
  return failures ? 1 : 0;
}
