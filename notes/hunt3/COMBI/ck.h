// Common helpers for the combinations hunt: a model value tree, layout builders and reference combinations.
#pragma once
#include <cstdint>
#include <cstring>
#include <iostream>
#include <memory>
#include <random>
#include <sstream>
#include <stdexcept>
#include <string>
#include <vector>

#include "awkward/Content.h"
#include "awkward/Identities.h"
#include "awkward/Index.h"
#include "awkward/array/ListOffsetArray.h"
#include "awkward/array/ListArray.h"
#include "awkward/array/RegularArray.h"
#include "awkward/array/IndexedArray.h"
#include "awkward/array/ByteMaskedArray.h"
#include "awkward/array/BitMaskedArray.h"
#include "awkward/array/UnmaskedArray.h"
#include "awkward/array/RecordArray.h"
#include "awkward/array/Record.h"
#include "awkward/array/UnionArray.h"
#include "awkward/array/EmptyArray.h"
#include "awkward/array/NumpyArray.h"
#include "awkward/kernel-dispatch.h"
#include "awkward/util.h"

namespace ak = awkward;

// ---------- model ----------
struct V {
  enum K { Null, Num, List, Rec } k;
  int64_t num;
  std::vector<V> items;               // List: elements; Rec: field values
  std::vector<std::string> keys;      // Rec
  V() : k(Null), num(0) {}
  static V null() { return V(); }
  static V number(int64_t x) { V v; v.k = Num; v.num = x; return v; }
  static V list(const std::vector<V>& xs) { V v; v.k = List; v.items = xs; return v; }
  static V rec(const std::vector<std::string>& keys, const std::vector<V>& xs) { V v; v.k = Rec; v.keys = keys; v.items = xs; return v; }
};

static void json(std::ostream& o, const V& v) {
  switch (v.k) {
    case V::Null: o << "null"; break;
    case V::Num: o << v.num; break;
    case V::List:
      o << "[";
      for (size_t i = 0; i < v.items.size(); i++) { if (i) o << ","; json(o, v.items[i]); }
      o << "]"; break;
    case V::Rec:
      o << "{";
      for (size_t i = 0; i < v.items.size(); i++) { if (i) o << ","; o << "\"" << v.keys[i] << "\":"; json(o, v.items[i]); }
      o << "}"; break;
  }
}
static std::string json(const V& v) { std::ostringstream o; json(o, v); return o.str(); }
static std::string json(const std::vector<V>& vs) { return json(V::list(vs)); }

// reference: combinations of a vector
static void combos_rec(const std::vector<V>& xs, int64_t n, bool repl, const std::vector<std::string>& keys,
                       std::vector<int64_t>& cur, int64_t startfrom, std::vector<V>& out) {
  if ((int64_t)cur.size() == n) {
    std::vector<V> f;
    for (auto i : cur) f.push_back(xs[(size_t)i]);
    out.push_back(V::rec(keys, f));
    return;
  }
  for (int64_t i = startfrom; i < (int64_t)xs.size(); i++) {
    cur.push_back(i);
    combos_rec(xs, n, repl, keys, cur, repl ? i : i + 1, out);
    cur.pop_back();
  }
}
static std::vector<V> combos(const std::vector<V>& xs, int64_t n, bool repl, const std::vector<std::string>& keys) {
  std::vector<V> out; std::vector<int64_t> cur;
  combos_rec(xs, n, repl, keys, cur, 0, out);
  return out;
}
static std::vector<std::string> tuplekeys(int64_t n) {
  std::vector<std::string> k; for (int64_t i = 0; i < n; i++) k.push_back(std::to_string(i)); return k;
}
// apply at axis (axis counted from this vector being axis 0)
static V ref_at(const V& v, int64_t n, bool repl, const std::vector<std::string>& keys, int64_t axis);
static std::vector<V> ref_combinations(const std::vector<V>& xs, int64_t n, bool repl, const std::vector<std::string>& keys, int64_t axis) {
  if (axis == 0) return combos(xs, n, repl, keys);
  std::vector<V> out;
  for (auto& x : xs) out.push_back(ref_at(x, n, repl, keys, axis));
  return out;
}
static V ref_at(const V& v, int64_t n, bool repl, const std::vector<std::string>& keys, int64_t axis) {
  // v is an element of a list at axis (axis-1); we need combos within v at level `axis`
  switch (v.k) {
    case V::Null: return v;
    case V::List: return V::list(ref_combinations(v.items, n, repl, keys, axis - 1));
    case V::Rec: {
      std::vector<V> f;
      for (auto& x : v.items) f.push_back(ref_at(x, n, repl, keys, axis));
      return V::rec(v.keys, f);
    }
    default: throw std::runtime_error("ref_at: axis too deep for model");
  }
}

// ---------- layout builders ----------
template <typename T>
static ak::IndexOf<T> mkindex(const std::vector<int64_t>& xs) {
  static uint64_t st = 12345; st = st * 6364136223846793005ULL + 1442695040888963407ULL;
  int64_t front = (int64_t)((st >> 33) % 3), back = (int64_t)((st >> 40) % 2);
  ak::IndexOf<T> big((int64_t)xs.size() + front + back);
  for (int64_t i = 0; i < big.length(); i++) big.setitem_at_nowrap(i, (T)(i % 2 ? 99 : 0));
  for (size_t i = 0; i < xs.size(); i++) big.setitem_at_nowrap(front + (int64_t)i, (T)xs[i]);
  return big.getitem_range_nowrap(front, front + (int64_t)xs.size());
}
static ak::ContentPtr numpy(const std::vector<int64_t>& xs) {
  int64_t n = (int64_t)xs.size();
  std::shared_ptr<int64_t> buf = ak::kernel::malloc<int64_t>(ak::kernel::lib::cpu, (n == 0 ? 1 : n) * 8);
  if (n) std::memcpy(buf.get(), xs.data(), (size_t)n * 8);
  return std::make_shared<ak::NumpyArray>(ak::Identities::none(), ak::util::Parameters(), buf,
      std::vector<ssize_t>({(ssize_t)n}), std::vector<ssize_t>({8}), 0, 8,
      ak::util::dtype_to_format(ak::util::dtype::int64), ak::util::dtype::int64, ak::kernel::lib::cpu);
}
static ak::ContentPtr numpy_nd(const std::vector<int64_t>& xs, const std::vector<ssize_t>& shape,
                               const std::vector<ssize_t>& strides, ssize_t byteoffset) {
  int64_t n = (int64_t)xs.size();
  std::shared_ptr<int64_t> buf = ak::kernel::malloc<int64_t>(ak::kernel::lib::cpu, (n == 0 ? 1 : n) * 8);
  if (n) std::memcpy(buf.get(), xs.data(), (size_t)n * 8);
  return std::make_shared<ak::NumpyArray>(ak::Identities::none(), ak::util::Parameters(), buf,
      shape, strides, byteoffset, 8,
      ak::util::dtype_to_format(ak::util::dtype::int64), ak::util::dtype::int64, ak::kernel::lib::cpu);
}
static ak::IdentitiesPtr noid() { return ak::Identities::none(); }
static ak::util::Parameters nopar() { return ak::util::Parameters(); }

static int failures = 0;
static bool check(const std::string& label, const std::string& got, const std::string& expected) {
  if (got != expected) {
    std::cout << "FAIL " << label << "\n   got:      " << got << "\n   expected: " << expected << std::endl;
    failures++;
    return false;
  }
  return true;
}
