// defect4: maxdecimals = 0 violates the precondition of rapidjson's SetMaxDecimalPlaces / dtoa
// (maxDecimalPlaces >= 1).  ToJson*::Impl guards with `if (maxdecimals >= 0)`, so 0 is passed
// on; RapidJSON's dtoa() has RAPIDJSON_ASSERT(maxDecimalPlaces >= 1): with assertions enabled
// (this harness, a CMake Debug build) ak.to_json(array, maxdecimals=0) aborts the process; with
// NDEBUG it silently behaves like maxdecimals=1 ("1.5" for 1.57), which is not "0 decimals"
// either.  (int)maxdecimals also silently narrows an int64.
// exit 0 = well-formed JSON that parses to numbers within 1 of the input, or a C++ exception.
#include <cstring>
#include <iostream>
#include <memory>
#include <stdexcept>
#include <vector>
#include "awkward/Content.h"
#include "awkward/Identities.h"
#include "awkward/array/NumpyArray.h"
#include "awkward/kernel-dispatch.h"
#include "awkward/util.h"
namespace ak = awkward;

int main() {
  std::shared_ptr<double> buf = ak::kernel::malloc<double>(ak::kernel::lib::cpu, 2 * 8);
  buf.get()[0] = 1.57; buf.get()[1] = 20.25;
  ak::ContentPtr a = std::make_shared<ak::NumpyArray>(
      ak::Identities::none(), ak::util::Parameters(), buf,
      std::vector<ssize_t>({2}), std::vector<ssize_t>({8}), 0, 8,
      "d", ak::util::dtype::float64, ak::kernel::lib::cpu);
  try {
    std::string s = a->tojson(false, /*maxdecimals=*/0);     // <-- assertion failure (abort)
    std::cout << "tojson(maxdecimals=0) = " << s << std::endl;
    // 0 decimals: accept "1" / "1.0" style output, reject anything with a non-zero fraction
    bool ok = (s == "[1,20]" || s == "[1.0,20.0]" || s == "[2,20]" || s == "[2.0,20.0]");
    return ok ? 0 : 1;
  }
  catch (std::exception& e) {
    std::cout << "raised (fine): " << e.what() << std::endl;
    return 0;
  }
}
