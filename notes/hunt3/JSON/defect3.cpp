// defect3: deeply nested JSON input crashes the process (stack exhaustion) instead of raising.
// FromJsonString("{"a":{"a":{"a": ... 1 ... }}}") with 100000 levels (a 600 kB text) dies with
// SIGSEGV at a nesting depth of roughly 26000: reader.Parse<kParseStopWhenDoneFlag> is the
// recursive-descent parser (no kParseIterativeFlag, no depth limit in the Handler) and every
// SAX event is forwarded through one RecordBuilder::field/beginrecord (ListBuilder::beginlist
// for arrays) frame per enclosing level.  Python's json.loads raises RecursionError for the
// same text.  (For nested *arrays* the same recursion makes parsing O(depth^2): 100000
// levels of "[" take minutes.)
// exit 0 = parsed or raised a C++ exception; crash = defect.
#include <iostream>
#include <stdexcept>
#include <string>
#include "awkward/Content.h"
#include "awkward/builder/ArrayBuilderOptions.h"
#include "awkward/io/json.h"
namespace ak = awkward;

int main(int argc, char** argv) {
  const long depth = argc > 1 ? atol(argv[1]) : 100000;
  std::string text;
  for (long i = 0; i < depth; i++) text += "{\"a\":";
  text += "1";
  text += std::string((size_t)depth, '}');
  try {
    ak::ContentPtr a = ak::FromJsonString(text.c_str(), ak::ArrayBuilderOptions(1024, 1.5));
    std::cout << "parsed " << depth << " levels" << std::endl;
  }
  catch (std::exception& e) {
    std::cout << "raised (fine): " << std::string(e.what()).substr(0, 80) << std::endl;
  }
  return 0;
}
