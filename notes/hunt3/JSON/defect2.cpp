// defect2: buffersize = 0 for the JSON file writer / file reader crashes instead of raising.
// Content::tojson(FILE*, pretty, maxdecimals, buffersize, ...) and FromJsonFile(FILE*, options,
// buffersize, ...) pass the caller's buffersize (ak.to_json(..., buffersize=) /
// ak.from_json(..., buffersize=) in Python, unchecked by src/python) straight to
// kernel::malloc and rapidjson::FileWriteStream / FileReadStream.  kernel::malloc(0) returns
// nullptr, FileWriteStream::Put then stores through that null pointer (SIGSEGV);
// FileReadStream requires bufferSize >= 4 (assert; without the assert it dereferences the
// null buffer).
// exit 0 = both calls either work or throw a C++ exception; anything else = crash.
#include <cstdio>
#include <iostream>
#include <memory>
#include <stdexcept>
#include <vector>
#include <cstring>
#include "awkward/Content.h"
#include "awkward/Identities.h"
#include "awkward/array/NumpyArray.h"
#include "awkward/builder/ArrayBuilderOptions.h"
#include "awkward/io/json.h"
#include "awkward/kernel-dispatch.h"
#include "awkward/util.h"
namespace ak = awkward;

int main(int argc, char** argv) {
  const bool only_read = (argc > 1 && std::string(argv[1]) == "read");
  const std::string path = "/tmp/hunt3/JSON/defect2_tmp.json";
  std::shared_ptr<int64_t> buf = ak::kernel::malloc<int64_t>(ak::kernel::lib::cpu, 3 * 8);
  buf.get()[0] = 1; buf.get()[1] = 2; buf.get()[2] = 3;
  ak::ContentPtr a = std::make_shared<ak::NumpyArray>(
      ak::Identities::none(), ak::util::Parameters(), buf,
      std::vector<ssize_t>({3}), std::vector<ssize_t>({8}), 0, 8,
      "l", ak::util::dtype::int64, ak::kernel::lib::cpu);

  if (!only_read) {
    FILE* f = fopen(path.c_str(), "wb");
    try {
      a->tojson(f, false, -1, /*buffersize=*/0);        // <-- SIGSEGV here
      std::cout << "write with buffersize=0: returned" << std::endl;
    }
    catch (std::exception& e) {
      std::cout << "write with buffersize=0: exception (fine): " << e.what() << std::endl;
    }
    fclose(f);
  }

  { FILE* f = fopen(path.c_str(), "wb"); fputs("[1,2,3]", f); fclose(f); }
  FILE* f = fopen(path.c_str(), "rb");
  try {
    ak::ContentPtr b = ak::FromJsonFile(f, ak::ArrayBuilderOptions(1024, 1.5), /*buffersize=*/0);  // <-- abort / null deref
    std::cout << "read with buffersize=0: " << b->tojson(false, -1) << std::endl;
  }
  catch (std::exception& e) {
    std::cout << "read with buffersize=0: exception (fine): " << e.what() << std::endl;
  }
  fclose(f);
  remove(path.c_str());
  return 0;
}
