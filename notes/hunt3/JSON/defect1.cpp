// defect1: Content::tojson of a 1-d (or the innermost axis of an n-d) NumpyArray whose byte
// stride is not a multiple of the item size writes wrong numbers.
// Such arrays come from field views of packed NumPy structured arrays
// (np.zeros(4, dtype=[("x","<f8"),("y","<i4")])["x"] has itemsize 8, strides (12,));
// ak.from_numpy / ak.layout.NumpyArray accept them, getitem_at / tostring / to_list read
// them correctly (byte arithmetic), only NumpyArray::tojson_integer/real/complex divide the
// byte stride by sizeof(T) and index a T* with the truncated quotient.
// exit 0 = JSON equals the element-wise value; 1 = wrong JSON.
#include <cstring>
#include <iostream>
#include <memory>
#include <vector>
#include "awkward/Content.h"
#include "awkward/Identities.h"
#include "awkward/array/NumpyArray.h"
#include "awkward/kernel-dispatch.h"
#include "awkward/util.h"
namespace ak = awkward;

int main() {
  const int64_t n = 4;
  // records of 12 bytes: { double x; int32_t y; }  (packed, like a NumPy structured dtype)
  std::shared_ptr<uint8_t> buf = ak::kernel::malloc<uint8_t>(ak::kernel::lib::cpu, n * 12 + 8);
  std::memset(buf.get(), 0, (size_t)(n * 12 + 8));
  for (int64_t i = 0; i < n; i++) {
    double x = 1.5 + (double)i;
    int32_t y = 100 + (int32_t)i;
    std::memcpy(buf.get() + i * 12, &x, 8);
    std::memcpy(buf.get() + i * 12 + 8, &y, 4);
  }
  ak::ContentPtr x = std::make_shared<ak::NumpyArray>(
      ak::Identities::none(), ak::util::Parameters(), buf,
      std::vector<ssize_t>({(ssize_t)n}), std::vector<ssize_t>({12}), 0, 8,
      "d", ak::util::dtype::float64, ak::kernel::lib::cpu);

  std::string whole = x->tojson(false, -1);
  std::string itemwise = "[";
  for (int64_t i = 0; i < n; i++) {
    if (i) itemwise += ",";
    itemwise += x->getitem_at(i)->tojson(false, -1);   // 0-d path, reads byteoffset + i*stride
  }
  itemwise += "]";
  const std::string expected = "[1.5,2.5,3.5,4.5]";
  std::cout << "tojson(whole array) = " << whole << "\n";
  std::cout << "item by item        = " << itemwise << "\n";
  std::cout << "expected            = " << expected << std::endl;
  if (itemwise != expected) { std::cout << "demo broken" << std::endl; return 2; }

  // same through a list: [[1.5, 2.5], [3.5, 4.5]] as a 2-d view with strides (24, 12)
  ak::ContentPtr x2 = std::make_shared<ak::NumpyArray>(
      ak::Identities::none(), ak::util::Parameters(), buf,
      std::vector<ssize_t>({2, 2}), std::vector<ssize_t>({24, 12}), 0, 8,
      "d", ak::util::dtype::float64, ak::kernel::lib::cpu);
  std::string whole2 = x2->tojson(false, -1);
  std::cout << "2-d tojson          = " << whole2 << "  (expected [[1.5,2.5],[3.5,4.5]])" << std::endl;

  return (whole == expected && whole2 == "[[1.5,2.5],[3.5,4.5]]") ? 0 : 1;
}
