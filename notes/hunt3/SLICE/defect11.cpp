// defect11: a NumpyArray with more than one dimension that is not the top node (content of a ListOffsetArray,
// IndexedArray, ... as built by ak.unflatten(np_2d, counts) or ak.from_numpy(np_3d)[index]) cannot be reached by a
// jagged index or by an index with None: NumpyArray::getitem_next_jagged (all four overloads, NumpyArray.cpp) and
// NumpyArray::getitem_next(SliceJagged64 / SliceMissing64) throw std::runtime_error "undefined operation ... for
// ndim == 2" / "FIXME".  The same values held as RegularArray(NumpyArray 1-d) work: the result depends on the
// physical encoding.
#include <iostream>
#include <cstring>
#include <string>
#include <vector>
#include <memory>
#include "awkward/Content.h"
#include "awkward/Slice.h"
#include "awkward/Index.h"
#include "awkward/array/NumpyArray.h"
#include "awkward/array/ListOffsetArray.h"
#include "awkward/array/ListArray.h"
#include "awkward/array/RegularArray.h"
#include "awkward/array/RecordArray.h"
#include "awkward/array/IndexedArray.h"
#include "awkward/builder/ArrayBuilderOptions.h"
#include "awkward/io/json.h"
#include "awkward/kernel-dispatch.h"
namespace ak = awkward;

// array or index from JSON (the layouts ak.from_iter / ak.Array(...) would build)
static ak::ContentPtr J(const char* s) { return ak::FromJsonString(s, ak::ArrayBuilderOptions(1024, 2.0), "nan", "inf", "-inf"); }
// what the Python layer does with an ak.Array used as an index
static ak::SliceItemPtr IDX(const char* s) { return J(s)->asslice(); }
static ak::SliceItemPtr AT(int64_t i) { return std::make_shared<ak::SliceAt>(i); }
static ak::SliceItemPtr ALL() { return std::make_shared<ak::SliceRange>(ak::Slice::none(), ak::Slice::none(), 1); }
static ak::SliceItemPtr RANGE(int64_t a, int64_t b) { return std::make_shared<ak::SliceRange>(a, b, 1); }
static ak::SliceItemPtr ELLIPSIS() { return std::make_shared<ak::SliceEllipsis>(); }
static ak::SliceItemPtr NEWAXIS() { return std::make_shared<ak::SliceNewAxis>(); }
// integer index array of any shape (row-major data), as toslice_part() builds it from a NumPy array
static ak::SliceItemPtr ARR(const std::vector<int64_t>& shape, const std::vector<int64_t>& data) {
  ak::Index64 index((int64_t)data.size() + 1);
  for (size_t i = 0; i < data.size(); i++) index.setitem_at_nowrap((int64_t)i, data[i]);
  std::vector<int64_t> strides(shape.size(), 1);
  int64_t s = 1; for (size_t d = shape.size(); d-- > 0;) { strides[d] = s; s *= (shape[d] > 0 ? shape[d] : 1); }
  return std::make_shared<ak::SliceArray64>(ak::Index64(index.ptr(), 0, shape[0], ak::kernel::lib::cpu), shape, strides, false);
}
static std::string run(const ak::ContentPtr& a, const std::vector<ak::SliceItemPtr>& items) {
  try {
    ak::Slice sl; for (auto& it : items) sl.append(it); sl.become_sealed();
    return a->getitem(sl)->tojson(false, 1);
  } catch (std::exception& e) {
    std::string m = e.what(); size_t p = m.find("\n\n(https"); if (p != std::string::npos) m = m.substr(0, p);
    return "ERR: " + m;
  }
}
static int failures = 0;
static void expect_eq(const std::string& label, const std::string& got, const std::string& want) {
  bool ok = (got == want);
  std::cout << (ok ? "ok   " : "FAIL ") << label << " -> " << got; if (!ok) { std::cout << "   (expected " << want << ")"; failures++; } std::cout << std::endl;
}
static void expect_err(const std::string& label, const std::string& got) {
  bool ok = (got.substr(0, 4) == "ERR:");
  std::cout << (ok ? "ok   " : "FAIL ") << label << " -> " << got; if (!ok) { std::cout << "   (expected an error)"; failures++; } std::cout << std::endl;
}

int main() {

  int64_t n = 6;
  std::shared_ptr<int64_t> buf = ak::kernel::malloc<int64_t>(ak::kernel::lib::cpu, n * 8);
  for (int64_t i = 0; i < n; i++) buf.get()[i] = i + 1;
  ak::ContentPtr np2d = std::make_shared<ak::NumpyArray>(ak::Identities::none(), ak::util::Parameters(), buf,
      std::vector<ssize_t>({3, 2}), std::vector<ssize_t>({16, 8}), 0, 8,
      ak::util::dtype_to_format(ak::util::dtype::int64), ak::util::dtype::int64, ak::kernel::lib::cpu);
  ak::ContentPtr np1d = std::make_shared<ak::NumpyArray>(ak::Identities::none(), ak::util::Parameters(), buf,
      std::vector<ssize_t>({6}), std::vector<ssize_t>({8}), 0, 8,
      ak::util::dtype_to_format(ak::util::dtype::int64), ak::util::dtype::int64, ak::kernel::lib::cpu);
  ak::ContentPtr reg = std::make_shared<ak::RegularArray>(ak::Identities::none(), ak::util::Parameters(), np1d, 2);
  ak::Index64 offsets(3); offsets.setitem_at_nowrap(0, 0); offsets.setitem_at_nowrap(1, 2); offsets.setitem_at_nowrap(2, 3);
  ak::ContentPtr a_np = std::make_shared<ak::ListOffsetArray64>(ak::Identities::none(), ak::util::Parameters(), offsets, np2d);
  ak::ContentPtr a_reg = std::make_shared<ak::ListOffsetArray64>(ak::Identities::none(), ak::util::Parameters(), offsets, reg);
  expect_eq("same value", a_np->tojson(false, 1), a_reg->tojson(false, 1));     // [[[1,2],[3,4]],[[5,6]]]
  const char* jag = "[[[0],[1]],[[1,0]]]";
  expect_eq("control RegularArray encoding, jagged", run(a_reg, {IDX(jag)}), "[[[1],[4]],[[6,5]]]");
  expect_eq("NumpyArray 2-d encoding, jagged", run(a_np, {IDX(jag)}), "[[[1],[4]],[[6,5]]]");
  const char* jagnone = "[[[0],[null]],[[1,0]]]";
  expect_eq("control RegularArray encoding, jagged with None", run(a_reg, {IDX(jagnone)}), "[[[1],[null]],[[6,5]]]");
  expect_eq("NumpyArray 2-d encoding, jagged with None", run(a_np, {IDX(jagnone)}), "[[[1],[null]],[[6,5]]]");
  expect_eq("control RegularArray encoding, [:, :, [0,None]]", run(a_reg, {ALL(), ALL(), IDX("[0,null]")}), "[[[1,null],[3,null]],[[5,null]]]");
  expect_eq("NumpyArray 2-d encoding, [:, :, [0,None]]", run(a_np, {ALL(), ALL(), IDX("[0,null]")}), "[[[1,null],[3,null]],[[5,null]]]");
  return failures ? 1 : 0;
}
