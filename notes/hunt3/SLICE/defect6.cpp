// defect6: an index array with None that follows an EMPTY outer selection returns a layout that fails
// validityerror(): "IndexedOptionArray64: index[i] >= len(content)".  getitem_next_regular_missing (Content.cpp)
// turns a length of 0 into 1 ("it will be trimmed later") and so builds option indexes 0..n-1 over an empty content.
// The values shown are right because the broken node is unreachable, but ak.is_valid() is False and any
// operation that looks at the whole content (flatten, num, to_arrow, ...) sees out-of-range indexes.
#include <iostream>
#include <cstring>
#include <string>
#include <vector>
#include <memory>
#include "awkward/Content.h"
#include "awkward/Slice.h"
#include "awkward/Index.h"
#include "awkward/array/NumpyArray.h"
#include "awkward/array/ListOffsetArray.h"
#include "awkward/array/ListArray.h"
#include "awkward/array/RegularArray.h"
#include "awkward/array/RecordArray.h"
#include "awkward/array/IndexedArray.h"
#include "awkward/builder/ArrayBuilderOptions.h"
#include "awkward/io/json.h"
#include "awkward/kernel-dispatch.h"
namespace ak = awkward;

// array or index from JSON (the layouts ak.from_iter / ak.Array(...) would build)
static ak::ContentPtr J(const char* s) { return ak::FromJsonString(s, ak::ArrayBuilderOptions(1024, 2.0), "nan", "inf", "-inf"); }
// what the Python layer does with an ak.Array used as an index
static ak::SliceItemPtr IDX(const char* s) { return J(s)->asslice(); }
static ak::SliceItemPtr AT(int64_t i) { return std::make_shared<ak::SliceAt>(i); }
static ak::SliceItemPtr ALL() { return std::make_shared<ak::SliceRange>(ak::Slice::none(), ak::Slice::none(), 1); }
static ak::SliceItemPtr RANGE(int64_t a, int64_t b) { return std::make_shared<ak::SliceRange>(a, b, 1); }
static ak::SliceItemPtr ELLIPSIS() { return std::make_shared<ak::SliceEllipsis>(); }
static ak::SliceItemPtr NEWAXIS() { return std::make_shared<ak::SliceNewAxis>(); }
// integer index array of any shape (row-major data), as toslice_part() builds it from a NumPy array
static ak::SliceItemPtr ARR(const std::vector<int64_t>& shape, const std::vector<int64_t>& data) {
  ak::Index64 index((int64_t)data.size() + 1);
  for (size_t i = 0; i < data.size(); i++) index.setitem_at_nowrap((int64_t)i, data[i]);
  std::vector<int64_t> strides(shape.size(), 1);
  int64_t s = 1; for (size_t d = shape.size(); d-- > 0;) { strides[d] = s; s *= (shape[d] > 0 ? shape[d] : 1); }
  return std::make_shared<ak::SliceArray64>(ak::Index64(index.ptr(), 0, shape[0], ak::kernel::lib::cpu), shape, strides, false);
}
static std::string run(const ak::ContentPtr& a, const std::vector<ak::SliceItemPtr>& items) {
  try {
    ak::Slice sl; for (auto& it : items) sl.append(it); sl.become_sealed();
    return a->getitem(sl)->tojson(false, 1);
  } catch (std::exception& e) {
    std::string m = e.what(); size_t p = m.find("\n\n(https"); if (p != std::string::npos) m = m.substr(0, p);
    return "ERR: " + m;
  }
}
static int failures = 0;
static void expect_eq(const std::string& label, const std::string& got, const std::string& want) {
  bool ok = (got == want);
  std::cout << (ok ? "ok   " : "FAIL ") << label << " -> " << got; if (!ok) { std::cout << "   (expected " << want << ")"; failures++; } std::cout << std::endl;
}
static void expect_err(const std::string& label, const std::string& got) {
  bool ok = (got.substr(0, 4) == "ERR:");
  std::cout << (ok ? "ok   " : "FAIL ") << label << " -> " << got; if (!ok) { std::cout << "   (expected an error)"; failures++; } std::cout << std::endl;
}

int main() {

  ak::ContentPtr b = J("[[[1,2,3],[4,5,6]],[[7,8,9]]]");
  {
    ak::Slice sl; sl.append(ALL()); sl.append(RANGE(0, 0)); sl.append(IDX("[0,null]")); sl.become_sealed();
    ak::ContentPtr out = b->getitem(sl);
    expect_eq("b[:, 0:0, [0,None]] value", out->tojson(false, 1), "[[],[]]");
    expect_eq("b[:, 0:0, [0,None]] validityerror", out->validityerror("out"), "");
  }
  {
    ak::Slice sl; sl.append(RANGE(0, 0)); sl.append(ALL()); sl.append(IDX("[0,null]")); sl.become_sealed();
    ak::ContentPtr out = b->getitem(sl);
    expect_eq("b[0:0, :, [0,None]] value", out->tojson(false, 1), "[]");
    expect_eq("b[0:0, :, [0,None]] validityerror", out->validityerror("out"), "");
  }
  return failures ? 1 : 0;
}
