// defect1: a jagged index that has None at a list level (SliceMissing64 inside SliceJagged64) is never
// checked against the lengths of the lists it is applied to: ListArrayOf<T>::getitem_next_jagged(SliceMissing64)
// builds its carry from the slice's own offsets only.  A jagged index whose rows have the wrong number of
// entries therefore (a) silently returns elements of OTHER rows, or (b) carries positions past the end of the
// content (out-of-bounds read in NumpyArray::carry -> awkward_NumpyArray_getitem_next_null_64; run under valgrind).
//
// exit 0 = behaviour right (both slices raise), 1 = wrong value returned, valgrind: invalid read.
#include <iostream>
#include <cstring>
#include "awkward/Content.h"
#include "awkward/Slice.h"
#include "awkward/array/NumpyArray.h"
#include "awkward/array/ListOffsetArray.h"
#include "awkward/builder/ArrayBuilderOptions.h"
#include "awkward/io/json.h"
#include "awkward/kernel-dispatch.h"
namespace ak = awkward;

static ak::ContentPtr J(const char* s) { return ak::FromJsonString(s, ak::ArrayBuilderOptions(1024, 2.0), "nan", "inf", "-inf"); }

static int check(const char* label, const ak::ContentPtr& array, const char* index) {
  ak::Slice sl; sl.append(J(index)->asslice()); sl.become_sealed();
  try {
    ak::ContentPtr out = array->getitem(sl);
    std::cout << "FAIL " << label << ": " << array->tojson(false, 1) << "[" << index << "] returned " << out->tojson(false, 1)
              << " (expected an error: the index does not fit the array)" << std::endl;
    return 1;
  } catch (std::exception& e) {
    std::cout << "ok   " << label << ": raised" << std::endl;
    return 0;
  }
}

int main() {
  int bad = 0;
  // (a) row 0 of the array has 2 lists, row 1 has 1; the index has 3 entries for row 0 and none for row 1.
  //     Returned today: [[[0],null,[5]],[]]  -- the 5 comes from row 1.
  bad += check("a", J("[[[0,1],[2,3]],[[4,5]]]"), "[[[0],null,[1]],[]]");
  //     Returned today: [[null],[[2],[5]]]
  bad += check("b", J("[[[0,1],[2,3]],[[4,5]]]"), "[[null],[[0],[1]]]");
  // (c) same with a rectilinear content: positions 2..8 are carried from a NumpyArray of length 2.
  int64_t n = 4;
  std::shared_ptr<int64_t> buf = ak::kernel::malloc<int64_t>(ak::kernel::lib::cpu, n * 8);
  for (int64_t i = 0; i < n; i++) buf.get()[i] = i;
  ak::ContentPtr np = std::make_shared<ak::NumpyArray>(ak::Identities::none(), ak::util::Parameters(), buf,
      std::vector<ssize_t>({2, 2}), std::vector<ssize_t>({16, 8}), 0, 8,
      ak::util::dtype_to_format(ak::util::dtype::int64), ak::util::dtype::int64, ak::kernel::lib::cpu);
  ak::Index64 offsets(2); offsets.setitem_at_nowrap(0, 0); offsets.setitem_at_nowrap(1, 2);
  ak::ContentPtr arr = std::make_shared<ak::ListOffsetArray64>(ak::Identities::none(), ak::util::Parameters(), offsets, np);
  bad += check("c", arr, "[[[0],null,[1],[1],[1],[1],[1],[1],[1]]]");
  return bad ? 1 : 0;
}
