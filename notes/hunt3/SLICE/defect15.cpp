// defect15: a range slice below the first dimension of a ListArray/ListOffsetArray whose start + step exceeds
// INT64_MAX: [[1,2,3],[4,5]][:, 2::9223372036854775806] returns [[3,1,0],[]] (values from positions -2**63+..,
// read out of bounds; valgrind: invalid read; with other data a crash).  awkward_ListArray_getitem_next_range and
// awkward_ListArray_getitem_next_range_carrylength loop `for (j = start; j < stop; j += step)`; after the first
// element j += step overflows (signed overflow, wraps negative) and the loop goes on.  RegularArray and NumpyArray
// compute the number of steps by division and are fine.
#include <iostream>
#include <cstring>
#include <string>
#include <vector>
#include <memory>
#include "awkward/Content.h"
#include "awkward/Slice.h"
#include "awkward/Index.h"
#include "awkward/array/NumpyArray.h"
#include "awkward/array/ListOffsetArray.h"
#include "awkward/array/ListArray.h"
#include "awkward/array/RegularArray.h"
#include "awkward/array/RecordArray.h"
#include "awkward/array/IndexedArray.h"
#include "awkward/builder/ArrayBuilderOptions.h"
#include "awkward/io/json.h"
#include "awkward/kernel-dispatch.h"
namespace ak = awkward;

// array or index from JSON (the layouts ak.from_iter / ak.Array(...) would build)
static ak::ContentPtr J(const char* s) { return ak::FromJsonString(s, ak::ArrayBuilderOptions(1024, 2.0), "nan", "inf", "-inf"); }
// what the Python layer does with an ak.Array used as an index
static ak::SliceItemPtr IDX(const char* s) { return J(s)->asslice(); }
static ak::SliceItemPtr AT(int64_t i) { return std::make_shared<ak::SliceAt>(i); }
static ak::SliceItemPtr ALL() { return std::make_shared<ak::SliceRange>(ak::Slice::none(), ak::Slice::none(), 1); }
static ak::SliceItemPtr RANGE(int64_t a, int64_t b) { return std::make_shared<ak::SliceRange>(a, b, 1); }
static ak::SliceItemPtr ELLIPSIS() { return std::make_shared<ak::SliceEllipsis>(); }
static ak::SliceItemPtr NEWAXIS() { return std::make_shared<ak::SliceNewAxis>(); }
// integer index array of any shape (row-major data), as toslice_part() builds it from a NumPy array
static ak::SliceItemPtr ARR(const std::vector<int64_t>& shape, const std::vector<int64_t>& data) {
  ak::Index64 index((int64_t)data.size() + 1);
  for (size_t i = 0; i < data.size(); i++) index.setitem_at_nowrap((int64_t)i, data[i]);
  std::vector<int64_t> strides(shape.size(), 1);
  int64_t s = 1; for (size_t d = shape.size(); d-- > 0;) { strides[d] = s; s *= (shape[d] > 0 ? shape[d] : 1); }
  return std::make_shared<ak::SliceArray64>(ak::Index64(index.ptr(), 0, shape[0], ak::kernel::lib::cpu), shape, strides, false);
}
static std::string run(const ak::ContentPtr& a, const std::vector<ak::SliceItemPtr>& items) {
  try {
    ak::Slice sl; for (auto& it : items) sl.append(it); sl.become_sealed();
    return a->getitem(sl)->tojson(false, 1);
  } catch (std::exception& e) {
    std::string m = e.what(); size_t p = m.find("\n\n(https"); if (p != std::string::npos) m = m.substr(0, p);
    return "ERR: " + m;
  }
}
static int failures = 0;
static void expect_eq(const std::string& label, const std::string& got, const std::string& want) {
  bool ok = (got == want);
  std::cout << (ok ? "ok   " : "FAIL ") << label << " -> " << got; if (!ok) { std::cout << "   (expected " << want << ")"; failures++; } std::cout << std::endl;
}
static void expect_err(const std::string& label, const std::string& got) {
  bool ok = (got.substr(0, 4) == "ERR:");
  std::cout << (ok ? "ok   " : "FAIL ") << label << " -> " << got; if (!ok) { std::cout << "   (expected an error)"; failures++; } std::cout << std::endl;
}

int main() {

  ak::ContentPtr a = J("[[1,2,3],[4,5]]");
  const int64_t big = 9223372036854775806LL;   // 2**63 - 2, the largest step Slice accepts (2**63 - 1 is Slice::none())
  expect_eq("control [[1,2,3],[4,5]][:, 1::2**63-2]", run(a, {ALL(), std::make_shared<ak::SliceRange>(1, ak::Slice::none(), big)}), "[[2],[5]]");
  expect_eq("[[1,2,3],[4,5]][:, 2::2**63-2]", run(a, {ALL(), std::make_shared<ak::SliceRange>(2, ak::Slice::none(), big)}), "[[3],[]]");
  expect_eq("[[1,2,3],[4,5]][:, -1::2**63-2]", run(a, {ALL(), std::make_shared<ak::SliceRange>(-1, ak::Slice::none(), big)}), "[[3],[5]]");
  return failures ? 1 : 0;
}
