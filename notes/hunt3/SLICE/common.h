// Shared differential-testing support for the slicing hunt.
#pragma once
#include <cstdint>
#include <cstring>
#include <iostream>
#include <sstream>
#include <memory>
#include <stdexcept>
#include <string>
#include <vector>
#include <random>
#include <algorithm>
#include <map>
#include <set>
#include <functional>

#include "awkward/Content.h"
#include "awkward/Identities.h"
#include "awkward/Index.h"
#include "awkward/Slice.h"
#include "awkward/array/ListOffsetArray.h"
#include "awkward/array/ListArray.h"
#include "awkward/array/RegularArray.h"
#include "awkward/array/NumpyArray.h"
#include "awkward/array/EmptyArray.h"
#include "awkward/array/IndexedArray.h"
#include "awkward/array/ByteMaskedArray.h"
#include "awkward/array/BitMaskedArray.h"
#include "awkward/array/UnmaskedArray.h"
#include "awkward/array/UnionArray.h"
#include "awkward/array/RecordArray.h"
#include "awkward/array/Record.h"
#include "awkward/builder/ArrayBuilderOptions.h"
#include "awkward/io/json.h"
#include "awkward/kernel-dispatch.h"
#include "awkward/util.h"

namespace ak = awkward;

// ---------------------------------------------------------------- types and values
struct T;
using TP = std::shared_ptr<T>;
struct T {
  enum K { NUM, LIST, OPTION, RECORD, UNION, UNKNOWN } k;
  int64_t regsize = -1;   // LIST: -1 = variable
  TP content;             // LIST, OPTION
  std::vector<std::string> keys;   // RECORD
  std::vector<TP> contents;        // RECORD, UNION
  bool istuple = false;
};
static std::vector<TP> g_types;   // keep alive
static TP mkT(T::K k) { TP t = std::make_shared<T>(); t->k = k; g_types.push_back(t); return t; }

struct V {
  enum K { NONE, NUM, LIST, REC } k = NONE;
  int64_t num = 0;
  std::vector<V> items;            // LIST elements / REC field values
  const T* t = nullptr;            // own type (for NONE: the option type)
};

static std::string tojson(const V& v) {
  switch (v.k) {
    case V::NONE: return "null";
    case V::NUM: return std::to_string(v.num);
    case V::LIST: {
      std::string s = "[";
      for (size_t i = 0; i < v.items.size(); i++) { if (i) s += ","; s += tojson(v.items[i]); }
      return s + "]";
    }
    case V::REC: {
      std::string s = "{";
      for (size_t i = 0; i < v.items.size(); i++) {
        if (i) s += ",";
        s += "\"" + v.t->keys[i] + "\":" + tojson(v.items[i]);
      }
      return s + "}";
    }
  }
  return "?";
}

static std::string tstr(const T* t) {
  switch (t->k) {
    case T::NUM: return "int";
    case T::UNKNOWN: return "unknown";
    case T::LIST: return (t->regsize < 0 ? std::string("var * ") : std::to_string(t->regsize) + " * ") + tstr(t->content.get());
    case T::OPTION: return "?" + tstr(t->content.get());
    case T::RECORD: { std::string s = "{"; for (size_t i = 0; i < t->contents.size(); i++) { if (i) s += ", "; s += t->keys[i] + ": " + tstr(t->contents[i].get()); } return s + "}"; }
    case T::UNION: { std::string s = "union["; for (size_t i = 0; i < t->contents.size(); i++) { if (i) s += ", "; s += tstr(t->contents[i].get()); } return s + "]"; }
  }
  return "?";
}

// number of list dimensions (min,max) at and below type t
static std::pair<int64_t,int64_t> Dmm(const T* t) {
  switch (t->k) {
    case T::NUM: case T::UNKNOWN: return {0, 0};
    case T::LIST: { auto p = Dmm(t->content.get()); return {p.first + 1, p.second + 1}; }
    case T::OPTION: return Dmm(t->content.get());
    case T::RECORD: case T::UNION: {
      if (t->contents.empty()) return {0, 0};
      int64_t mn = 1 << 30, mx = -1;
      for (auto& c : t->contents) { auto p = Dmm(c.get()); mn = std::min(mn, p.first); mx = std::max(mx, p.second); }
      return {mn, mx};
    }
  }
  return {0, 0};
}

// ---------------------------------------------------------------- rng
struct Rng {
  std::mt19937_64 g;
  explicit Rng(uint64_t seed) : g(seed) {}
  int64_t range(int64_t lo, int64_t hi) { // inclusive
    if (hi <= lo) return lo;
    return lo + (int64_t)(g() % (uint64_t)(hi - lo + 1));
  }
  bool chance(int pct) { return (int)(g() % 100) < pct; }
};

// ---------------------------------------------------------------- buffers
template <typename I>
static ak::IndexOf<I> mkindex(const std::vector<int64_t>& v, int64_t pad = 0) {
  int64_t n = (int64_t)v.size();
  std::shared_ptr<I> ptr = ak::kernel::malloc<I>(ak::kernel::lib::cpu, (n + pad + 1) * (int64_t)sizeof(I));
  for (int64_t i = 0; i < pad; i++) ptr.get()[i] = (I)77;   // garbage in front
  for (int64_t i = 0; i < n; i++) ptr.get()[pad + i] = (I)v[(size_t)i];
  ptr.get()[pad + n] = (I)99;
  return ak::IndexOf<I>(ptr, pad, n, ak::kernel::lib::cpu);
}

static int64_t g_counter = 100;

// n-d int64 NumpyArray with given logical shape; element values given row-major in vals.
// mode: 0 contiguous, 1 padded strides + byteoffset, 2 fortran order (transposed), 3 reversed first axis (negative stride)
static ak::ContentPtr mknumpy(const std::vector<int64_t>& shape, const std::vector<int64_t>& vals, int mode) {
  size_t nd = shape.size();
  int64_t total = 1; for (auto s : shape) total *= s;
  std::vector<int64_t> estr(nd);   // strides in elements
  int64_t eoff = 0; int64_t buflen = 0;
  if (mode == 2 && nd >= 2) {
    int64_t s = 1; for (size_t d = 0; d < nd; d++) { estr[d] = s; s *= std::max<int64_t>(shape[d], 1); }
    buflen = s;
  } else if (mode == 1) {
    int64_t s = 2; for (size_t d = nd; d-- > 0;) { estr[d] = s; s *= (std::max<int64_t>(shape[d], 1) + 1); }
    eoff = 3; buflen = s + 4;
  } else if (mode == 3) {
    int64_t s = 1; for (size_t d = nd; d-- > 0;) { estr[d] = s; s *= std::max<int64_t>(shape[d], 1); }
    buflen = s;
    if (shape[0] > 0) { eoff = estr[0] * (shape[0] - 1); estr[0] = -estr[0]; }
  } else {
    int64_t s = 1; for (size_t d = nd; d-- > 0;) { estr[d] = s; s *= std::max<int64_t>(shape[d], 1); }
    buflen = s;
  }
  buflen = std::max<int64_t>(buflen, 1);
  std::shared_ptr<int64_t> buf = ak::kernel::malloc<int64_t>(ak::kernel::lib::cpu, buflen * 8);
  for (int64_t i = 0; i < buflen; i++) buf.get()[i] = -999;
  // fill
  std::vector<int64_t> idx(nd, 0);
  for (int64_t flat = 0; flat < total; flat++) {
    int64_t pos = eoff; for (size_t d = 0; d < nd; d++) pos += idx[d] * estr[d];
    buf.get()[pos] = vals[(size_t)flat];
    for (size_t d = nd; d-- > 0;) { if (++idx[d] < shape[d]) break; idx[d] = 0; }
  }
  std::vector<ssize_t> sh, st;
  for (size_t d = 0; d < nd; d++) { sh.push_back((ssize_t)shape[d]); st.push_back((ssize_t)(estr[d] * 8)); }
  return std::make_shared<ak::NumpyArray>(ak::Identities::none(), ak::util::Parameters(), buf, sh, st,
                                          (ssize_t)(eoff * 8), (ssize_t)8,
                                          ak::util::dtype_to_format(ak::util::dtype::int64), ak::util::dtype::int64,
                                          ak::kernel::lib::cpu);
}

// ---------------------------------------------------------------- layout generator
struct Gen {
  ak::ContentPtr c;
  std::vector<V> vals;
  TP t;    // element type
  std::string desc;
};

struct GenOpts {
  bool allow_record = true;
  bool allow_union = true;
  bool allow_option = true;
  bool allow_indexed = true;
  bool allow_ndnumpy = true;
  bool allow_empty = true;
  bool allow_negstride = true;
  int maxwrap = 2;
  bool in_optidx = false;
  bool record_leaf_only = false;
  bool canonical = false;   // zero-based ListOffsetArray64 / exact RegularArray only, no unreachable content
};

static V mknum(int64_t x, const T* t) { V v; v.k = V::NUM; v.num = x; v.t = t; return v; }
static V mknone(const T* t) { V v; v.k = V::NONE; v.t = t; return v; }

static Gen gen(Rng& r, const GenOpts& o, int depth, int64_t n, int wraps);

static Gen gen_leaf(Rng& r, const GenOpts& o, int64_t n) {
  Gen g; g.t = mkT(T::NUM);
  std::vector<int64_t> vals;
  for (int64_t i = 0; i < n; i++) { vals.push_back(g_counter++); g.vals.push_back(mknum(vals.back(), g.t.get())); }
  int mode = (int)r.range(0, o.allow_negstride ? 3 : 1); if (r.chance(50)) mode = 0;
  if (mode == 2) mode = 0;
  g.c = mknumpy({n}, vals, mode);
  g.desc = "Np" + std::to_string(mode);
  return g;
}

static Gen gen_ndnumpy(Rng& r, const GenOpts& o, int depth, int64_t n) {
  // depth = number of inner regular dims (>=1)
  std::vector<int64_t> shape = {n};
  for (int d = 0; d < depth; d++) shape.push_back(r.chance(15) ? 0 : r.range(1, 3));
  int64_t total = 1; for (auto s : shape) total *= s;
  std::vector<int64_t> vals; for (int64_t i = 0; i < total; i++) vals.push_back(g_counter++);
  int mode = (int)r.range(0, o.allow_negstride ? 3 : 2);
  Gen g;
  g.c = mknumpy(shape, vals, mode);
  // type
  TP t = mkT(T::NUM);
  TP leaf = t;
  for (size_t d = shape.size(); d-- > 1;) { TP l = mkT(T::LIST); l->regsize = shape[d]; l->content = t; t = l; }
  g.t = t;
  // values: recursive build
  std::vector<const T*> tl; { const T* p = t.get(); while (true) { tl.push_back(p); if (p->k != T::LIST) break; p = p->content.get(); } }
  // build from flat
  std::function<V(size_t, int64_t&)> build = [&](size_t d, int64_t& pos) -> V {
    if (d == shape.size()) { return mknum(vals[(size_t)pos++], leaf.get()); }
    V v; v.k = V::LIST; v.t = tl[d - 1];
    for (int64_t i = 0; i < shape[d]; i++) v.items.push_back(build(d + 1, pos));
    return v;
  };
  int64_t pos = 0;
  for (int64_t i = 0; i < n; i++) g.vals.push_back(build(1, pos));
  g.desc = "NpND" + std::to_string(mode) + "(";
  for (auto s : shape) g.desc += std::to_string(s) + ",";
  g.desc += ")";
  return g;
}

template <typename I>
static ak::ContentPtr mk_listoffset(const std::vector<int64_t>& off, const ak::ContentPtr& c, int64_t pad) {
  return std::make_shared<ak::ListOffsetArrayOf<I>>(ak::Identities::none(), ak::util::Parameters(), mkindex<I>(off, pad), c);
}
template <typename I>
static ak::ContentPtr mk_list(const std::vector<int64_t>& st, const std::vector<int64_t>& sp, const ak::ContentPtr& c, int64_t pad) {
  return std::make_shared<ak::ListArrayOf<I>>(ak::Identities::none(), ak::util::Parameters(), mkindex<I>(st, pad), mkindex<I>(sp, pad ? pad + 1 : 0), c);
}
template <typename I, bool OPT>
static ak::ContentPtr mk_indexed(const std::vector<int64_t>& idx, const ak::ContentPtr& c, int64_t pad) {
  return std::make_shared<ak::IndexedArrayOf<I, OPT>>(ak::Identities::none(), ak::util::Parameters(), mkindex<I>(idx, pad), c);
}
template <typename I>
static ak::ContentPtr mk_union(const std::vector<int64_t>& tags, const std::vector<int64_t>& idx, const ak::ContentPtrVec& cs, int64_t pad) {
  return std::make_shared<ak::UnionArrayOf<int8_t, I>>(ak::Identities::none(), ak::util::Parameters(), mkindex<int8_t>(tags, pad), mkindex<I>(idx, pad), cs);
}

static Gen gen_listlike(Rng& r, const GenOpts& o, int depth, int64_t n, int wraps) {
  int kind = (int)r.range(0, 8);   // 0-2 ListOffset, 3-5 ListArray, 6-7 Regular, 8 ndnumpy
  if (o.canonical) { if (kind <= 5) kind = 2; }
  Gen g;
  TP t = mkT(T::LIST);
  int64_t pad = r.chance(30) ? r.range(1, 2) : 0;
  if (o.canonical) pad = 0;
  if (kind == 8 && o.allow_ndnumpy) {
    return gen_ndnumpy(r, o, (int)r.range(1, std::max(1, depth)), n);
  }
  if (kind >= 6) {
    int64_t size = r.chance(15) ? 0 : (r.chance(20) ? 1 : r.range(2, 3));
    int64_t extra = size > 0 ? r.range(0, size - 1) : r.range(0, 2);
    if (o.canonical) extra = 0;
    Gen c = gen(r, o, depth - 1, n * size + extra, wraps);
    t->regsize = size; t->content = c.t;
    for (int64_t i = 0; i < n; i++) {
      V v; v.k = V::LIST; v.t = t.get();
      for (int64_t j = 0; j < size; j++) v.items.push_back(c.vals[(size_t)(i * size + j)]);
      g.vals.push_back(v);
    }
    g.c = std::make_shared<ak::RegularArray>(ak::Identities::none(), ak::util::Parameters(), c.c, size, n);
    g.t = t; g.desc = "Reg" + std::to_string(size) + "[" + c.desc + "]";
    return g;
  }
  if (kind <= 2) {
    std::vector<int64_t> off; off.push_back((r.chance(50) && !o.canonical) ? r.range(1, 2) : 0);
    for (int64_t i = 0; i < n; i++) off.push_back(off.back() + (r.chance(25) ? 0 : r.range(1, 3)));
    int64_t m = off.back() + (o.canonical ? 0 : r.range(0, 2));
    Gen c = gen(r, o, depth - 1, m, wraps);
    t->content = c.t;
    for (int64_t i = 0; i < n; i++) {
      V v; v.k = V::LIST; v.t = t.get();
      for (int64_t j = off[(size_t)i]; j < off[(size_t)i + 1]; j++) v.items.push_back(c.vals[(size_t)j]);
      g.vals.push_back(v);
    }
    if (kind == 0) g.c = mk_listoffset<int32_t>(off, c.c, pad);
    else if (kind == 1) g.c = mk_listoffset<uint32_t>(off, c.c, pad);
    else g.c = mk_listoffset<int64_t>(off, c.c, pad);
    g.t = t; g.desc = std::string("LO") + (kind == 0 ? "32" : kind == 1 ? "U32" : "64") + "[" + c.desc + "]";
    return g;
  }
  // ListArray
  int64_t m = r.range(n > 0 ? 1 : 0, 2 * n + 2);
  Gen c = gen(r, o, depth - 1, m, wraps);
  t->content = c.t;
  std::vector<int64_t> st, sp;
  for (int64_t i = 0; i < n; i++) {
    int64_t a = r.range(0, m);
    int64_t b = r.chance(25) ? a : r.range(a, std::min(m, a + 3));
    st.push_back(a); sp.push_back(b);
    V v; v.k = V::LIST; v.t = t.get();
    for (int64_t j = a; j < b; j++) v.items.push_back(c.vals[(size_t)j]);
    g.vals.push_back(v);
  }
  if (kind == 3) g.c = mk_list<int32_t>(st, sp, c.c, pad);
  else if (kind == 4) g.c = mk_list<uint32_t>(st, sp, c.c, pad);
  else g.c = mk_list<int64_t>(st, sp, c.c, pad);
  g.t = t; g.desc = std::string("LA") + (kind == 3 ? "32" : kind == 4 ? "U32" : "64") + "[" + c.desc + "]";
  return g;
}

static Gen gen_wrapper(Rng& r, const GenOpts& oin, int depth, int64_t n, int wraps) {
  GenOpts o = oin;
  // indexed / option / union / record around gen(depth)
  std::vector<int> kinds;
  if (o.allow_indexed && !o.in_optidx) { kinds.push_back(0); kinds.push_back(1); kinds.push_back(2); }
  if (o.allow_option && !o.in_optidx) { for (int k = 3; k <= 9; k++) kinds.push_back(k); }
  if (kinds.empty()) { GenOpts o3 = o; o3.in_optidx = false; return gen(r, o3, depth, n, 0); }
  if (o.allow_union) { kinds.push_back(10); kinds.push_back(11); kinds.push_back(12); }
  if (o.allow_record) { kinds.push_back(13); kinds.push_back(13); }
  int kind = kinds[(size_t)r.range(0, (int64_t)kinds.size() - 1)];
  int64_t pad = r.chance(30) ? r.range(1, 2) : 0;
  Gen g;
  o.in_optidx = (kind <= 9);
  if (kind <= 2) {   // IndexedArray
    int64_t m = r.range(n > 0 ? 1 : 0, n + 2);
    Gen c = gen(r, o, depth, m, wraps - 1);
    std::vector<int64_t> idx;
    for (int64_t i = 0; i < n; i++) { idx.push_back(r.range(0, m - 1)); g.vals.push_back(c.vals[(size_t)idx.back()]); }
    if (kind == 0) g.c = mk_indexed<int32_t, false>(idx, c.c, pad);
    else if (kind == 1) g.c = mk_indexed<uint32_t, false>(idx, c.c, pad);
    else g.c = mk_indexed<int64_t, false>(idx, c.c, pad);
    g.t = c.t; g.desc = std::string("Idx") + (kind == 0 ? "32" : kind == 1 ? "U32" : "64") + "[" + c.desc + "]";
    return g;
  }
  if (kind <= 9) {   // option types
    TP t = mkT(T::OPTION);
    if (kind <= 4) {  // IndexedOptionArray 32 / 64
      int64_t m = r.range(n > 0 ? 1 : 0, n + 2);
      Gen c = gen(r, o, depth, m, wraps - 1);
      t->content = c.t;
      std::vector<int64_t> idx;
      for (int64_t i = 0; i < n; i++) {
        if (r.chance(30)) { idx.push_back(r.chance(80) ? -1 : -r.range(2, 5)); g.vals.push_back(mknone(t.get())); }
        else { idx.push_back(r.range(0, m - 1)); g.vals.push_back(c.vals[(size_t)idx.back()]); }
      }
      if (kind == 3) g.c = mk_indexed<int32_t, true>(idx, c.c, pad);
      else g.c = mk_indexed<int64_t, true>(idx, c.c, pad);
      g.desc = std::string("IdxOpt") + (kind == 3 ? "32" : "64") + "[" + c.desc + "]";
    }
    else if (kind <= 6) {  // ByteMasked
      int64_t m = n + r.range(0, 2);
      Gen c = gen(r, o, depth, m, wraps - 1);
      t->content = c.t;
      bool vw = (kind == 5);
      std::vector<int64_t> mask;
      for (int64_t i = 0; i < n; i++) {
        bool valid = !r.chance(30);
        mask.push_back(valid == vw ? 1 : 0);
        g.vals.push_back(valid ? c.vals[(size_t)i] : mknone(t.get()));
      }
      g.c = std::make_shared<ak::ByteMaskedArray>(ak::Identities::none(), ak::util::Parameters(), mkindex<int8_t>(mask, pad), c.c, vw);
      g.desc = std::string("ByteM") + (vw ? "T" : "F") + "[" + c.desc + "]";
    }
    else if (kind <= 8) {  // BitMasked
      int64_t m = n + r.range(0, 2);
      Gen c = gen(r, o, depth, m, wraps - 1);
      t->content = c.t;
      bool vw = r.chance(50);
      bool lsb = (kind == 7);
      int64_t nbytes = (n + 7) / 8 + r.range(0, 1);
      std::vector<int64_t> bytes((size_t)nbytes, 0);
      for (auto& b : bytes) b = r.range(0, 255);
      for (int64_t i = 0; i < n; i++) {
        bool valid = !r.chance(30);
        int bit = lsb ? (int)(i % 8) : 7 - (int)(i % 8);
        if (valid == vw) bytes[(size_t)(i / 8)] |= (1 << bit); else bytes[(size_t)(i / 8)] &= ~(1 << bit);
        g.vals.push_back(valid ? c.vals[(size_t)i] : mknone(t.get()));
      }
      g.c = std::make_shared<ak::BitMaskedArray>(ak::Identities::none(), ak::util::Parameters(), mkindex<uint8_t>(bytes, pad), c.c, vw, n, lsb);
      g.desc = std::string("BitM") + (vw ? "T" : "F") + (lsb ? "l" : "m") + "[" + c.desc + "]";
    }
    else {  // Unmasked
      Gen c = gen(r, o, depth, n, wraps - 1);
      t->content = c.t;
      g.vals = c.vals;
      g.c = std::make_shared<ak::UnmaskedArray>(ak::Identities::none(), ak::util::Parameters(), c.c);
      g.desc = "Unm[" + c.desc + "]";
    }
    g.t = t;
    return g;
  }
  if (kind <= 12) {  // Union of two or three contents
    TP t = mkT(T::UNION);
    int nc = (int)r.range(2, 3);
    std::vector<Gen> cs; ak::ContentPtrVec cps;
    std::vector<int64_t> lens;
    for (int j = 0; j < nc; j++) {
      int64_t m = r.range(n > 0 ? 1 : 0, n + 1);
      int d = (j == 0) ? depth : (int)r.range(0, depth);
      GenOpts o2 = o; o2.allow_union = false;
      cs.push_back(gen(r, o2, d, m, wraps - 1));
      cps.push_back(cs.back().c); lens.push_back(m);
      t->contents.push_back(cs.back().t);
    }
    std::vector<int64_t> tags, idx;
    for (int64_t i = 0; i < n; i++) {
      int64_t tg = r.range(0, nc - 1);
      int64_t ix = r.range(0, lens[(size_t)tg] - 1);
      tags.push_back(tg); idx.push_back(ix);
      g.vals.push_back(cs[(size_t)tg].vals[(size_t)ix]);
    }
    if (kind == 10) g.c = mk_union<int32_t>(tags, idx, cps, pad);
    else if (kind == 11) g.c = mk_union<uint32_t>(tags, idx, cps, pad);
    else g.c = mk_union<int64_t>(tags, idx, cps, pad);
    g.t = t; g.desc = std::string("Un") + (kind == 10 ? "32" : kind == 11 ? "U32" : "64") + "[";
    for (auto& c : cs) g.desc += c.desc + "|";
    g.desc += "]";
    return g;
  }
  // Record
  TP t = mkT(T::RECORD);
  int nf = (int)r.range(0, 3); if (r.chance(70) && nf == 0) nf = 2;
  bool tuple = r.chance(25);
  t->istuple = tuple;
  std::vector<Gen> cs; ak::ContentPtrVec cps;
  ak::util::RecordLookupPtr lookup = tuple ? ak::util::RecordLookupPtr(nullptr) : std::make_shared<ak::util::RecordLookup>();
  const char* names[] = {"x", "y", "z"};
  for (int j = 0; j < nf; j++) {
    int d = (j == 0) ? depth : (int)r.range(0, depth);
    GenOpts of = o; if (o.record_leaf_only) { d = 0; of.allow_record = false; of.allow_union = false; }
    cs.push_back(gen(r, of, d, n + r.range(0, 2), wraps - 1));
    cps.push_back(cs.back().c);
    t->contents.push_back(cs.back().t);
    t->keys.push_back(tuple ? std::to_string(j) : names[j]);
    if (!tuple) lookup->push_back(names[j]);
  }
  for (int64_t i = 0; i < n; i++) {
    V v; v.k = V::REC; v.t = t.get();
    for (int j = 0; j < nf; j++) v.items.push_back(cs[(size_t)j].vals[(size_t)i]);
    g.vals.push_back(v);
  }
  g.c = std::make_shared<ak::RecordArray>(ak::Identities::none(), ak::util::Parameters(), cps, lookup, n);
  g.t = t; g.desc = std::string(tuple ? "Tup{" : "Rec{");
  for (auto& c : cs) g.desc += c.desc + ",";
  g.desc += "}";
  return g;
}

static Gen gen(Rng& r, const GenOpts& o, int depth, int64_t n, int wraps) {
  if (wraps > 0 && r.chance(35) && (o.allow_indexed || o.allow_option || o.allow_union || o.allow_record)) {
    return gen_wrapper(r, o, depth, n, wraps);
  }
  if (depth <= 0) {
    if (n == 0 && o.allow_empty && r.chance(30)) {
      Gen g; g.t = mkT(T::UNKNOWN);
      g.c = std::make_shared<ak::EmptyArray>(ak::Identities::none(), ak::util::Parameters());
      g.desc = "Empty";
      return g;
    }
    return gen_leaf(r, o, n);
  }
  { GenOpts o3 = o; o3.in_optidx = false; return gen_listlike(r, o3, depth, n, wraps); }
}

// ---------------------------------------------------------------- slice spec
struct Item {
  enum K { AT, RANGE, ELLIPSIS, NEWAXIS, ARRAY, FIELD, FIELDS, MISSING } k;   // MISSING: 1-d data, value 1000000 stands for None
  int64_t at = 0;
  bool hasstart = false, hasstop = false; int64_t start = 0, stop = 0, step = 1;
  std::vector<int64_t> shape, data;  // ARRAY: row-major data
  bool frombool = false;
  int stridemode = 0;   // 0 contiguous, 1 padded, 2 transposed storage
  std::string key; std::vector<std::string> keys;
};

static std::string istr(const Item& it) {
  std::ostringstream s;
  switch (it.k) {
    case Item::AT: s << it.at; break;
    case Item::RANGE: if (it.hasstart) s << it.start; s << ":"; if (it.hasstop) s << it.stop; s << ":" << it.step; break;
    case Item::ELLIPSIS: s << "..."; break;
    case Item::NEWAXIS: s << "newaxis"; break;
    case Item::ARRAY: {
      s << (it.frombool ? "B" : "A") << "(";
      for (auto x : it.shape) s << x << ","; s << ")[";
      for (size_t i = 0; i < it.data.size(); i++) { if (i) s << ","; s << it.data[i]; }
      s << "]"; if (it.stridemode) s << "s" << it.stridemode; break;
    }
    case Item::FIELD: s << "\"" << it.key << "\""; break;
    case Item::FIELDS: s << "["; for (auto& k : it.keys) s << "\"" << k << "\","; s << "]"; break;
    case Item::MISSING: s << "M["; for (auto x : it.data) { if (x == 1000000) s << "None,"; else s << x << ","; } s << "]"; break;
  }
  return s.str();
}
static std::string sstr(const std::vector<Item>& items) {
  std::string s = "("; for (size_t i = 0; i < items.size(); i++) { if (i) s += ", "; s += istr(items[i]); } return s + ")";
}

static ak::SliceItemPtr mkslicearray(const Item& it) {
  size_t nd = it.shape.size();
  int64_t total = 1; for (auto s : it.shape) total *= s;
  std::vector<int64_t> estr(nd);
  int64_t buflen; int64_t pad = 0;
  if (it.stridemode == 2 && nd >= 2) {
    int64_t s = 1; for (size_t d = 0; d < nd; d++) { estr[d] = s; s *= std::max<int64_t>(it.shape[d], 1); } buflen = s;
  } else if (it.stridemode == 1) {
    int64_t s = 2; for (size_t d = nd; d-- > 0;) { estr[d] = s; s *= (std::max<int64_t>(it.shape[d], 1) + 1); } buflen = s; pad = 2;
  } else {
    int64_t s = 1; for (size_t d = nd; d-- > 0;) { estr[d] = s; s *= std::max<int64_t>(it.shape[d], 1); } buflen = s;
  }
  std::vector<int64_t> buf((size_t)std::max<int64_t>(buflen, 1), 1000000);
  std::vector<int64_t> idx(nd, 0);
  for (int64_t flat = 0; flat < total; flat++) {
    int64_t pos = 0; for (size_t d = 0; d < nd; d++) pos += idx[d] * estr[d];
    buf[(size_t)pos] = it.data[(size_t)flat];
    for (size_t d = nd; d-- > 0;) { if (++idx[d] < it.shape[d]) break; idx[d] = 0; }
  }
  ak::Index64 index = mkindex<int64_t>(buf, pad);
  return std::make_shared<ak::SliceArray64>(index, it.shape, estr, it.frombool);
}

static ak::Slice mkslice(const std::vector<Item>& items) {
  ak::Slice s;
  for (auto& it : items) {
    switch (it.k) {
      case Item::AT: s.append(std::make_shared<ak::SliceAt>(it.at)); break;
      case Item::RANGE: s.append(std::make_shared<ak::SliceRange>(it.hasstart ? it.start : ak::Slice::none(), it.hasstop ? it.stop : ak::Slice::none(), it.step)); break;
      case Item::ELLIPSIS: s.append(std::make_shared<ak::SliceEllipsis>()); break;
      case Item::NEWAXIS: s.append(std::make_shared<ak::SliceNewAxis>()); break;
      case Item::ARRAY: s.append(mkslicearray(it)); break;
      case Item::FIELD: s.append(std::make_shared<ak::SliceField>(it.key)); break;
      case Item::FIELDS: s.append(std::make_shared<ak::SliceFields>(it.keys)); break;
      case Item::MISSING: {
        std::string js = "[";
        for (size_t q = 0; q < it.data.size(); q++) { if (q) js += ","; js += (it.data[q] == 1000000 ? std::string("null") : std::to_string(it.data[q])); }
        js += "]";
        s.append(ak::FromJsonString(js.c_str(), ak::ArrayBuilderOptions(1024, 2.0), "nan", "inf", "-inf")->asslice());
        break;
      }
    }
  }
  s.become_sealed();
  return s;
}

// ---------------------------------------------------------------- reference
struct RefError : std::runtime_error { explicit RefError(const std::string& s) : std::runtime_error(s) {} };
struct RefRefuse : std::runtime_error { explicit RefRefuse(const std::string& s) : std::runtime_error(s) {} };

// python slice.indices
static void pyindices(int64_t len, const Item& it, int64_t& start, int64_t& stop, int64_t& step) {
  step = it.step;
  if (step > 0) {
    start = it.hasstart ? it.start : 0; stop = it.hasstop ? it.stop : len;
    if (it.hasstart) { if (start < 0) start = (start < -len ? 0 : start + len); if (start > len) start = len; }
    if (it.hasstop) { if (stop < 0) stop = (stop < -len ? 0 : stop + len); if (stop > len) stop = len; }
  } else {
    start = it.hasstart ? it.start : len - 1; stop = it.hasstop ? it.stop : -1;
    if (it.hasstart) { if (start < 0) start = (start < -len ? -1 : start + len); if (start > len - 1) start = len - 1; }
    if (it.hasstop) { if (stop < 0) stop = (stop < -len ? -1 : stop + len); if (stop > len - 1) stop = len - 1; }
  }
}

struct RefCtx {
  std::vector<Item> items;
  std::vector<int64_t> bshape;   // broadcast shape of all arrays
  int64_t bcount = 0;
};

static int64_t dimlength_from(const std::vector<Item>& items, size_t from) {
  int64_t n = 0;
  for (size_t i = from; i < items.size(); i++) if (items[i].k == Item::AT || items[i].k == Item::RANGE || items[i].k == Item::ARRAY) n++;   // MISSING is not counted by Slice::dimlength either
  return n;
}

static int64_t bcast_elem(const Item& it, const std::vector<int64_t>& bshape, int64_t m) {
  // m is flat position in broadcast shape
  size_t nd = bshape.size();
  std::vector<int64_t> idx(nd);
  for (size_t d = nd; d-- > 0;) { idx[d] = bshape[d] ? m % bshape[d] : 0; if (bshape[d]) m /= bshape[d]; }
  int64_t pos = 0;
  for (size_t d = 0; d < nd; d++) { int64_t i = (it.shape[d] == 1) ? 0 : idx[d]; pos = pos * it.shape[d] + i; }
  return it.data[(size_t)pos];
}

static V project(const V& v, const std::string& key) {
  switch (v.k) {
    case V::NONE: {
      return v;
    }
    case V::NUM: throw RefError("no field on number");
    case V::LIST: { V o; o.k = V::LIST; o.t = nullptr; for (auto& x : v.items) o.items.push_back(project(x, key)); return o; }
    case V::REC: {
      for (size_t i = 0; i < v.t->keys.size(); i++) if (v.t->keys[i] == key) return v.items[i];
      throw RefError("no such field");
    }
  }
  throw RefError("?");
}

static V reshape(const std::vector<V>& flat, const std::vector<int64_t>& shape) {
  // nest flat list into shape (row-major)
  std::vector<V> cur = flat;
  for (size_t d = shape.size(); d-- > 1;) {
    std::vector<V> next;
    int64_t s = shape[d];
    int64_t groups = 1; for (size_t e = 0; e < d; e++) groups *= shape[e];
    for (int64_t gi = 0; gi < groups; gi++) {
      V l; l.k = V::LIST;
      for (int64_t j = 0; j < s; j++) l.items.push_back(cur[(size_t)(gi * s + j)]);
      next.push_back(l);
    }
    cur = next;
  }
  V o; o.k = V::LIST; o.items = cur; return o;
}

// Note: after FIELD projection v.t may be null for lists; we then compute depth from the value's own t where available.
static V refget(const RefCtx& c, const V& v, size_t i, int64_t k);

static V refget_dim(const RefCtx& c, const V& v, size_t i, int64_t k) {
  const Item& it = c.items[i];
  if (v.k == V::NONE) {
    return refget(c, v, i + 1, k);   // None has no structure: passes through
  }
  if (v.k == V::REC) {
    V o; o.k = V::REC; o.t = v.t;
    for (auto& f : v.items) o.items.push_back(refget(c, f, i, k));
    return o;
  }
  if (v.k == V::NUM) throw RefError("too many dimensions in slice");
  int64_t len = (int64_t)v.items.size();
  if (it.k == Item::AT) {
    int64_t a = it.at; if (a < 0) a += len;
    if (a < 0 || a >= len) throw RefError("index out of range");
    return refget(c, v.items[(size_t)a], i + 1, k);
  }
  if (it.k == Item::RANGE) {
    int64_t start, stop, step; pyindices(len, it, start, stop, step);
    V o; o.k = V::LIST;
    if (step > 0) for (__int128 j = start; j < stop; j += step) o.items.push_back(refget(c, v.items[(size_t)(int64_t)j], i + 1, k));
    else for (__int128 j = start; j > stop; j += step) o.items.push_back(refget(c, v.items[(size_t)(int64_t)j], i + 1, k));
    return o;
  }
  if (it.k == Item::MISSING) {
    V o; o.k = V::LIST;
    for (auto a0 : it.data) {
      if (a0 == 1000000) { V nn; nn.k = V::NONE; o.items.push_back(nn); continue; }
      int64_t a = a0; if (a < 0) a += len;
      if (a < 0 || a >= len) throw RefError("index out of range");
      o.items.push_back(refget(c, v.items[(size_t)a], i + 1, k));
    }
    return o;
  }
  // ARRAY
  if (k >= 0) {
    int64_t a = bcast_elem(it, c.bshape, k); if (a < 0) a += len;
    if (a < 0 || a >= len) throw RefError("index out of range");
    return refget(c, v.items[(size_t)a], i + 1, k);
  }
  std::vector<V> flat;
  for (int64_t m = 0; m < c.bcount; m++) {
    int64_t a = bcast_elem(it, c.bshape, m); if (a < 0) a += len;
    if (a < 0 || a >= len) throw RefError("index out of range");
    flat.push_back(refget(c, v.items[(size_t)a], i + 1, m));
  }
  return reshape(flat, c.bshape);
}

static std::pair<int64_t,int64_t> vdepth(const V& v) {
  if (v.t != nullptr && v.k != V::NONE) return Dmm(v.t);
  if (v.t != nullptr && v.k == V::NONE) return Dmm(v.t);
  // projected list with unknown type: derive from elements
  if (v.k == V::LIST) {
    if (v.items.empty()) return {1, 1};   // unknown; best guess
    int64_t mn = 1 << 30, mx = -1;
    for (auto& x : v.items) { auto p = vdepth(x); mn = std::min(mn, p.first + 1); mx = std::max(mx, p.second + 1); }
    return {mn, mx};
  }
  return {0, 0};
}

static V refget(const RefCtx& c, const V& v, size_t i, int64_t k) {
  if (i == c.items.size()) return v;
  const Item& it = c.items[i];
  if (v.k == V::NONE && (it.k == Item::AT || it.k == Item::RANGE || it.k == Item::ARRAY || it.k == Item::MISSING)) return v;   // None swallows everything once a dimension item addresses it (awkward convention)
  switch (it.k) {
    case Item::NEWAXIS: { V o; o.k = V::LIST; o.items.push_back(refget(c, v, i + 1, k)); return o; }
    case Item::FIELD: return refget(c, project(v, it.key), i + 1, k);
    case Item::FIELDS: throw RefRefuse("fields not modelled here");
    case Item::ELLIPSIS: {
      int64_t dl = dimlength_from(c.items, i + 1);
      if (i + 1 == c.items.size()) return v;
      auto mm = vdepth(v);
      if (mm.first == dl && mm.second == dl) return refget(c, v, i + 1, k);
      if (mm.first == dl || mm.second == dl) throw RefRefuse("ellipsis on different depths");
      if (v.k == V::NUM) throw RefError("too many dimensions in slice");
      if (v.k == V::NONE) return v;
      if (v.k == V::REC) {
        V o; o.k = V::REC; o.t = v.t;
        for (auto& f : v.items) o.items.push_back(refget(c, f, i, k));
        return o;
      }
      // apply a full range, keep the ellipsis
      V o; o.k = V::LIST;
      for (auto& x : v.items) o.items.push_back(refget(c, x, i, k));
      return o;
    }
    default: return refget_dim(c, v, i, k);
  }
}

// top-level: returns JSON of expected value, or throws RefError / RefRefuse
static V refslice(const V& top, const std::vector<Item>& items) {
  RefCtx c; c.items = items;
  // broadcast
  bool any = false;
  for (auto& it : items) if (it.k == Item::ARRAY) {
    if (!any) { c.bshape = it.shape; any = true; }
    else {
      if (c.bshape.size() != it.shape.size()) throw RefRefuse("ndim mismatch");
      for (size_t d = 0; d < c.bshape.size(); d++) {
        if (it.shape[d] == c.bshape[d]) continue;
        if (it.shape[d] == 1) continue;
        if (c.bshape[d] == 1) { c.bshape[d] = it.shape[d]; continue; }
        throw RefError("cannot broadcast");
      }
    }
  }
  int nell = 0; for (auto& it : items) if (it.k == Item::ELLIPSIS) nell++;
  if (nell > 1) throw RefError("more than one ellipsis");
  if (any) {
    for (auto& it : c.items) if (it.k == Item::AT) { Item a; a.k = Item::ARRAY; a.shape = std::vector<int64_t>(c.bshape.size(), 1); a.data = {it.at}; it = a; }
    for (auto& it : c.items) if (it.k == Item::ARRAY) for (size_t d = 0; d < c.bshape.size(); d++) if (it.shape[d] != c.bshape[d] && it.shape[d] != 1) throw RefError("cannot broadcast");
    // adjacency
    int first = -1, last = -1, cnt = 0;
    for (size_t i = 0; i < c.items.size(); i++) if (c.items[i].k == Item::ARRAY) { if (first < 0) first = (int)i; last = (int)i; cnt++; }
    if (last - first + 1 != cnt) throw RefRefuse("advanced separated by basic");
    c.bcount = 1; for (auto s : c.bshape) c.bcount *= s;
  }
  return refget(c, top, 0, -1);
}

// ---------------------------------------------------------------- static bounds check on regular dims (type-level)
// returns true if the slice must raise because an index is out of range for a regular dimension on every path it reaches.
static bool static_oob(const T* t, const std::vector<Item>& items, size_t i) {
  if (i == items.size()) return false;
  const Item& it = items[i];
  switch (t->k) {
    case T::OPTION: return static_oob(t->content.get(), items, i);
    case T::RECORD: case T::UNION: {
      if (it.k == Item::FIELD || it.k == Item::FIELDS) return false;
      for (auto& c : t->contents) if (static_oob(c.get(), items, i)) return true;
      return false;
    }
    case T::UNKNOWN: case T::NUM: {
      for (size_t j = i; j < items.size(); j++) {
        if (items[j].k == Item::AT || items[j].k == Item::RANGE || items[j].k == Item::ARRAY) return true;   // too many dimensions
        if (items[j].k == Item::FIELD || items[j].k == Item::FIELDS) return false;
      }
      return false;
    }
    case T::LIST: break;
  }
  if (it.k == Item::NEWAXIS) return static_oob(t, items, i + 1);
  if (it.k == Item::FIELD || it.k == Item::FIELDS) return false;
  if (it.k == Item::ELLIPSIS) {
    int64_t dl = dimlength_from(items, i + 1);
    auto mm = Dmm(t);
    if (mm.first != mm.second) return false;
    if (mm.first <= dl) return static_oob(t, items, i + 1);
    return static_oob(t->content.get(), items, i);
  }
  if (t->regsize >= 0) {
    if (it.k == Item::AT) { int64_t a = it.at; if (a < 0) a += t->regsize; if (a < 0 || a >= t->regsize) return true; }
    if (it.k == Item::ARRAY) for (auto a : it.data) { if (a < 0) a += t->regsize; if (a < 0 || a >= t->regsize) return true; }
  }
  return static_oob(t->content.get(), items, i + 1);
}

// ---------------------------------------------------------------- run awkward
struct AkResult { bool ok; std::string json; std::string err; std::string validity; };

static AkResult run_ak(const ak::ContentPtr& array, const std::vector<Item>& items) {
  AkResult r; r.ok = false;
  try {
    ak::Slice s = mkslice(items);
    ak::ContentPtr out = array->getitem(s);
    r.json = out->tojson(false, 1);
    try { r.validity = out->validityerror("out"); } catch (std::exception&) { r.validity = ""; }
    if (r.validity.find("zero-dimensional") != std::string::npos) r.validity = "";
    r.ok = true;
  } catch (std::exception& e) {
    r.err = e.what();
    size_t p = r.err.find("\n\n(https"); if (p != std::string::npos) r.err = r.err.substr(0, p);
  }
  return r;
}

static V toplist(const Gen& g) {
  V top; top.k = V::LIST;
  TP t = mkT(T::LIST); t->content = g.t; top.t = t.get();
  top.items = g.vals;
  return top;
}
