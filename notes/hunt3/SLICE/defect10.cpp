// defect10: RegularArray::getitem_next(SliceJagged64) (RegularArray.cpp) hands its whole content_ to
// getitem_next_jagged, including items beyond length()*size().  A valid RegularArray whose content is longer than
// length*size (the constructor and validityerror allow that; carry() returns shallow_copy() for the identity carry)
// therefore fails with "cannot fit jagged slice with length 3 into ListOffsetArray64 of size 4" for array[0, jagged]
// and array[:, jagged]; the same values with an exactly sized content work.
#include <iostream>
#include <cstring>
#include <string>
#include <vector>
#include <memory>
#include "awkward/Content.h"
#include "awkward/Slice.h"
#include "awkward/Index.h"
#include "awkward/array/NumpyArray.h"
#include "awkward/array/ListOffsetArray.h"
#include "awkward/array/ListArray.h"
#include "awkward/array/RegularArray.h"
#include "awkward/array/RecordArray.h"
#include "awkward/array/IndexedArray.h"
#include "awkward/builder/ArrayBuilderOptions.h"
#include "awkward/io/json.h"
#include "awkward/kernel-dispatch.h"
namespace ak = awkward;

// array or index from JSON (the layouts ak.from_iter / ak.Array(...) would build)
static ak::ContentPtr J(const char* s) { return ak::FromJsonString(s, ak::ArrayBuilderOptions(1024, 2.0), "nan", "inf", "-inf"); }
// what the Python layer does with an ak.Array used as an index
static ak::SliceItemPtr IDX(const char* s) { return J(s)->asslice(); }
static ak::SliceItemPtr AT(int64_t i) { return std::make_shared<ak::SliceAt>(i); }
static ak::SliceItemPtr ALL() { return std::make_shared<ak::SliceRange>(ak::Slice::none(), ak::Slice::none(), 1); }
static ak::SliceItemPtr RANGE(int64_t a, int64_t b) { return std::make_shared<ak::SliceRange>(a, b, 1); }
static ak::SliceItemPtr ELLIPSIS() { return std::make_shared<ak::SliceEllipsis>(); }
static ak::SliceItemPtr NEWAXIS() { return std::make_shared<ak::SliceNewAxis>(); }
// integer index array of any shape (row-major data), as toslice_part() builds it from a NumPy array
static ak::SliceItemPtr ARR(const std::vector<int64_t>& shape, const std::vector<int64_t>& data) {
  ak::Index64 index((int64_t)data.size() + 1);
  for (size_t i = 0; i < data.size(); i++) index.setitem_at_nowrap((int64_t)i, data[i]);
  std::vector<int64_t> strides(shape.size(), 1);
  int64_t s = 1; for (size_t d = shape.size(); d-- > 0;) { strides[d] = s; s *= (shape[d] > 0 ? shape[d] : 1); }
  return std::make_shared<ak::SliceArray64>(ak::Index64(index.ptr(), 0, shape[0], ak::kernel::lib::cpu), shape, strides, false);
}
static std::string run(const ak::ContentPtr& a, const std::vector<ak::SliceItemPtr>& items) {
  try {
    ak::Slice sl; for (auto& it : items) sl.append(it); sl.become_sealed();
    return a->getitem(sl)->tojson(false, 1);
  } catch (std::exception& e) {
    std::string m = e.what(); size_t p = m.find("\n\n(https"); if (p != std::string::npos) m = m.substr(0, p);
    return "ERR: " + m;
  }
}
static int failures = 0;
static void expect_eq(const std::string& label, const std::string& got, const std::string& want) {
  bool ok = (got == want);
  std::cout << (ok ? "ok   " : "FAIL ") << label << " -> " << got; if (!ok) { std::cout << "   (expected " << want << ")"; failures++; } std::cout << std::endl;
}
static void expect_err(const std::string& label, const std::string& got) {
  bool ok = (got.substr(0, 4) == "ERR:");
  std::cout << (ok ? "ok   " : "FAIL ") << label << " -> " << got; if (!ok) { std::cout << "   (expected an error)"; failures++; } std::cout << std::endl;
}

int main() {

  ak::ContentPtr content4 = J("[[1,2],[3],[],[9,9]]");    // 4 lists, RegularArray of size 3 uses the first 3
  ak::ContentPtr content3 = J("[[1,2],[3],[]]");
  ak::ContentPtr loose = std::make_shared<ak::RegularArray>(ak::Identities::none(), ak::util::Parameters(), content4, 3);
  ak::ContentPtr exact = std::make_shared<ak::RegularArray>(ak::Identities::none(), ak::util::Parameters(), content3, 3);
  expect_eq("layouts have the same value", loose->tojson(false, 1), exact->tojson(false, 1));
  expect_eq("loose is valid", loose->validityerror("loose"), "");
  expect_eq("control exact[0, [[0],[0],[]]]", run(exact, {AT(0), IDX("[[0],[0],[]]")}), "[[1],[3],[]]");
  expect_eq("loose[0, [[0],[0],[]]]", run(loose, {AT(0), IDX("[[0],[0],[]]")}), "[[1],[3],[]]");
  expect_eq("loose[:, [[0],[0],[]]]", run(loose, {ALL(), IDX("[[0],[0],[]]")}), "[[[1],[3],[]]]");
  return failures ? 1 : 0;
}
