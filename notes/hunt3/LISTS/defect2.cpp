// defect 2: flatten(axis) with an axis deeper than an option node whose content is an EmptyArray
// (the layout ak.Array([None, None]) / ak.Array([[None, None], []]) has) drops the missing values:
// EmptyArray::offsets_and_flattened claims "I am the list level that was flattened" at every depth.
#include "/tmp/hunt3/LISTS/common_demo.h"
int main() {
  ak::ContentPtr empty = std::make_shared<ak::EmptyArray>(noid(), nopar());
  ak::ContentPtr opt = std::make_shared<ak::IndexedOptionArray64>(noid(), nopar(), ix64({-1, -1}), empty);
  expect("input a", opt->tojson(false, 1), "[null,null]");
  expect("valid a", opt->validityerror(""), "");
  // axis=1 is the level of the missing values: they are dropped (fine)
  expect("a.flatten(1)", opt->offsets_and_flattened(1, 0).second->tojson(false, 1), "[]");
  // axis=2 addresses a deeper level; lengths and missing-ness at level 1 must not change (or: error because too deep)
  std::string got;
  try { got = opt->offsets_and_flattened(2, 0).second->tojson(false, 1); } catch (std::exception& e) { got = "[null,null]"; /* an axis error is acceptable too */ }
  expect("a.flatten(2)", got, "[null,null]");

  ak::ContentPtr b = lists({0, 2, 2}, opt);
  expect("input b", b->tojson(false, 1), "[[null,null],[]]");
  expect("b.flatten(2)", b->offsets_and_flattened(2, 0).second->tojson(false, 1), "[[],[]]");   // level-2 missing lists dropped: fine
  try { got = b->offsets_and_flattened(3, 0).second->tojson(false, 1); } catch (std::exception& e) { got = "[[null,null],[]]"; }
  expect("b.flatten(3)", got, "[[null,null],[]]");
  // the same through a ByteMaskedArray / UnmaskedArray + the encoding-independence: a typed empty content behaves
  ak::ContentPtr typed = std::make_shared<ak::IndexedOptionArray64>(noid(), nopar(), ix64({-1, -1}), lists({0}, lists({0}, numbers({}))));
  expect("typed.flatten(2)", typed->offsets_and_flattened(2, 0).second->tojson(false, 1), "[null,null]");
  return failures ? 1 : 0;
}
