// defect 5: NumpyArray::toRegularArray hands the (outer, length-n) identities to the flattened inner
// NumpyArray (length n*m...), so flatten / localindex-with-identities of an n-d NumpyArray that has identities
// throws "Identities attempting to get ..., index out of range" instead of returning the result.
#include "/tmp/hunt3/LISTS/common_demo.h"
int main() {
  std::shared_ptr<int64_t> buf = ak::kernel::malloc<int64_t>(ak::kernel::lib::cpu, 6 * 8);
  for (int i = 0; i < 6; i++) buf.get()[i] = i + 1;
  ak::ContentPtr x = std::make_shared<ak::NumpyArray>(noid(), nopar(), buf, std::vector<ssize_t>({3, 2}), std::vector<ssize_t>({16, 8}), 0, 8,
                                                      ak::util::dtype_to_format(ak::util::dtype::int64), ak::util::dtype::int64, ak::kernel::lib::cpu);
  expect("input", x->tojson(false, 1), "[[1,2],[3,4],[5,6]]");
  expect("flatten(1) without identities", x->offsets_and_flattened(1, 0).second->tojson(false, 1), "[1,2,3,4,5,6]");
  x->setidentities();
  expect("valid with identities", x->validityerror(""), "");
  expect("num(1) with identities", x->num(1, 0)->tojson(false, 1), "[2,2,2]");
  std::string got;
  try { got = x->offsets_and_flattened(1, 0).second->tojson(false, 1); } catch (std::exception& e) { got = std::string("EXC ") + std::string(e.what()).substr(0, 70); }
  expect("flatten(1) with identities", got, "[1,2,3,4,5,6]");
  try { ak::ContentPtr r = dynamic_cast<ak::NumpyArray*>(x.get())->toRegularArray(); got = r->validityerror("").substr(0, 80); } catch (std::exception& e) { got = std::string("EXC ") + std::string(e.what()).substr(0, 70); }
  expect("toRegularArray() validity with identities", got, "");
  try { got = x->localindex(1, 0)->tojson(false, 1); } catch (std::exception& e) { got = std::string("EXC ") + std::string(e.what()).substr(0, 70); }
  expect("localindex(1) with identities", got, "[[0,1],[0,1],[0,1]]");
  return failures ? 1 : 0;
}
