// defect 1: flatten(axis=2) of a UnionArray one of whose contents is an EmptyArray (unknown type, zero length)
// dereferences a null pointer (segfault) when the EmptyArray is the LAST content.
// The layout is valid (validityerror() == ""), every element is reachable and is a list of lists.
#include "/tmp/hunt3/LISTS/common_demo.h"
int main() {
  // [[[1],[2,3]],[[4]]]
  ak::ContentPtr ll = lists({0, 2, 3}, lists({0, 1, 3, 4}, numbers({1, 2, 3, 4})));
  ak::ContentPtr empty = std::make_shared<ak::EmptyArray>(noid(), nopar());
  ak::ContentPtr u = std::make_shared<ak::UnionArray8_64>(noid(), nopar(), ix8({0, 0}), ix64({0, 1}), ak::ContentPtrVec({ll, empty}));
  expect("input", u->tojson(false, 1), "[[[1],[2,3]],[[4]]]");
  expect("valid", u->validityerror(""), "");
  expect("num(2)", u->num(2, 0)->tojson(false, 1), "[[1,2],[1]]");
  // same union with the EmptyArray first works:
  ak::ContentPtr u2 = std::make_shared<ak::UnionArray8_64>(noid(), nopar(), ix8({1, 1}), ix64({0, 1}), ak::ContentPtrVec({empty, ll}));
  expect("flatten(2), EmptyArray first", u2->offsets_and_flattened(2, 0).second->tojson(false, 1), "[[1,2,3],[4]]");
  std::cout << "now flatten(2) with the EmptyArray last (crashes on the current code)" << std::endl;
  try {
    expect("flatten(2), EmptyArray last", u->offsets_and_flattened(2, 0).second->tojson(false, 1), "[[1,2,3],[4]]");
  } catch (std::exception& e) { std::cout << "FAIL exception " << e.what() << std::endl; failures++; }
  return failures ? 1 : 0;
}
