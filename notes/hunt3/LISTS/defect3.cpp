// defect 3: a negative axis that cannot be resolved at the top (because a RecordArray sits below a list)
// is resolved further down RELATIVE TO THE SUB-NODE but compared with the ABSOLUTE depth counter.
// All branches have the same depth here (this is not the "different depths" situation).
//   x = [[{"a":[1]},{"a":[2,3]}],[{"a":[]}]]     depth 3, so axis=-1 == axis=2
#include "/tmp/hunt3/LISTS/common_demo.h"
int main() {
  ak::ContentPtr a = lists({0, 1, 3, 3}, numbers({1, 2, 3}));
  auto lookup = std::make_shared<ak::util::RecordLookup>(); lookup->push_back("a");
  ak::ContentPtr rec = std::make_shared<ak::RecordArray>(noid(), nopar(), ak::ContentPtrVec({a}), lookup, 3);
  ak::ContentPtr x = lists({0, 2, 3}, rec);
  expect("input", x->tojson(false, 1), "[[{\"a\":[1]},{\"a\":[2,3]}],[{\"a\":[]}]]");
  expect("num(2)", x->num(2, 0)->tojson(false, 1), "[[{\"a\":1},{\"a\":2}],[{\"a\":0}]]");
  expect("localindex(2)", x->localindex(2, 0)->tojson(false, 1), "[[{\"a\":[0]},{\"a\":[0,1]}],[{\"a\":[]}]]");
  // localindex(-1): silently wrong value
  std::string got;
  try { got = x->localindex(-1, 0)->tojson(false, 1); } catch (std::exception& e) { got = std::string("EXC ") + e.what(); }
  expect("localindex(-1)", got, "[[{\"a\":[0]},{\"a\":[0,1]}],[{\"a\":[]}]]");
  // localindex(-2) / num(-2): spurious "exceeds the min depth" (axis=1 is legal)
  try { got = x->num(-2, 0)->tojson(false, 1); } catch (std::exception& e) { got = std::string("EXC ") + std::string(e.what()).substr(0, 60); }
  expect("num(-2)", got, "[2,1]");
  // num(-1): structurally invalid result (RecordArray whose field is a 0-d NumpyArray); tojson of it segfaults
  try {
    ak::ContentPtr out = x->num(-1, 0);
    expect("num(-1) validity", out->validityerror("").substr(0, 60), "");
    if (failures == 0) expect("num(-1)", out->tojson(false, 1), "[[{\"a\":1},{\"a\":2}],[{\"a\":0}]]");
  } catch (std::exception& e) { std::cout << "FAIL exception " << e.what() << std::endl; failures++; }
  return failures ? 1 : 0;
}
