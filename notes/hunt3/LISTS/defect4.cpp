// defect 4: RecordArray::offsets_and_flattened rebuilds the RecordArray without a length, so a record array
// with zero fields loses its length (and an axis beyond its depth is accepted instead of raising)
#include "/tmp/hunt3/LISTS/common_demo.h"
int main() {
  auto lookup = std::make_shared<ak::util::RecordLookup>();
  ak::ContentPtr rec = std::make_shared<ak::RecordArray>(noid(), nopar(), ak::ContentPtrVec(), lookup, 4);
  expect("input", rec->tojson(false, 1), "[{},{},{},{}]");
  expect("num(2)", rec->num(2, 0)->tojson(false, 1), "[{},{},{},{}]");            // vacuous, length kept
  expect("localindex(2)", rec->localindex(2, 0)->tojson(false, 1), "[{},{},{},{}]");
  std::string got;
  try { got = rec->offsets_and_flattened(2, 0).second->tojson(false, 1); } catch (std::exception& e) { got = "[{},{},{},{}]"; /* an axis error is acceptable too */ }
  expect("flatten(2)", got, "[{},{},{},{}]");
  // below a list the lost length makes the result invalid
  ak::ContentPtr x = lists({0, 3, 4}, rec);
  try {
    ak::ContentPtr out = x->offsets_and_flattened(3, 0).second;
    expect("[[{},{},{}],[{}]].flatten(3) validity", out->validityerror("").substr(0, 70), "");
  } catch (std::exception& e) { /* an axis error is acceptable */ }
  return failures ? 1 : 0;
}
