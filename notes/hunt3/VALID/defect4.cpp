// defect4: an EMPTY integer-array index on an inner dimension loses the number of rows:
// Content::getitem_next_array_wrap builds RegularArray(content, size=0, zeros_length=0) for a 1-d index of
// length 0, although the row count is known (number of lists being sliced).
//   a = [[1,2],[3]]                 a[:, []]     expected [[],[]]           observed []   (wrong length, "valid")
//   b = [[[0]],[[1],[2,3]]]         b[:, :, []]  expected [[[]],[[],[]]]    observed INVALID (stop[i] > len(content))
//   c = [None,[0,4,0]]              c[:, []]     expected [None,[]]         observed INVALID (index >= len(content))
//   r = regular 2x3                 r[:, []]     expected [[],[]]           (NumPy: shape (2,0))
#include "/tmp/hunt3/VALID/common.h"

static ak::SliceItemPtr arr(std::vector<int64_t> v) { return std::make_shared<ak::SliceArray64>(idx<int64_t>(v), std::vector<int64_t>({(int64_t)v.size()}), std::vector<int64_t>({1}), false); }
static ak::SliceItemPtr all() { return std::make_shared<ak::SliceRange>(ak::Slice::none(), ak::Slice::none(), ak::Slice::none()); }

static int check(const ContentPtr& a, std::vector<ak::SliceItemPtr> items, const std::string& expected) {
  ak::Slice s(items, true);
  std::cout << a->tojson(false, 1) << " " << s.tostring() << " -> ";
  try {
    ContentPtr out = a->getitem(s);
    std::string e = verr(out);
    if (!e.empty()) { std::cout << "FAIL invalid: " << e.substr(0, 100) << std::endl; return 1; }
    std::string got = out->tojson(false, 1);
    if (got != expected) { std::cout << "FAIL got " << got << " expected " << expected << std::endl; return 1; }
    std::cout << "ok " << got << std::endl; return 0;
  } catch (std::exception& ex) { std::cout << "FAIL throws " << std::string(ex.what()).substr(0, 100) << std::endl; return 1; }
}

int main() {
  int bad = 0;
  ContentPtr a = listoffset<int64_t>({0, 2, 3}, numpy_i64({1, 2, 3}));
  ContentPtr b = listoffset<int64_t>({0, 1, 3}, listoffset<int64_t>({0, 1, 2, 4}, numpy_i64({0, 1, 2, 3})));
  ContentPtr c = indexed<int64_t, true>({-1, 0}, listoffset<int64_t>({0, 3}, numpy_i64({0, 4, 0})));
  ContentPtr r = regular(numpy_i64({1, 2, 3, 4, 5, 6}), 3);
  bad += check(a, {all(), arr({0})}, "[[1],[3]]");          // control
  bad += check(a, {all(), arr({})}, "[[],[]]");
  bad += check(b, {all(), all(), arr({0})}, "[[[0]],[[1],[2]]]");   // control
  bad += check(b, {all(), all(), arr({})}, "[[[]],[[],[]]]");
  bad += check(c, {all(), arr({})}, "[null,[]]");
  bad += check(r, {all(), arr({})}, "[[],[]]");
  std::cout << (bad ? "DEFECT" : "all ok") << std::endl;
  return bad ? 1 : 0;
}
