// defect10: reduce with keepdims=true on records whose fields have different list depth, one of them option-type,
// with the axis resolving to the level ABOVE the shallower field, returns an INVALID layout
// (IndexedOptionArray64 index[i] >= len(content)) instead of a valid array or the clean exception that
// keepdims=false gives ("reduce_next with unbranching depth > negaxis ...").
//   a = regular(size 3) of {x: list of lists (depth 3 in total), y: ?int (depth 2 in total)}
//   reduce(sum, axis=-2, mask=false, keepdims=true)
#include "/verif/notes/hunt3/VALID/common.h"

int main() {
  ContentPtr y = bytemasked({1,1,0,1,0,0,1,1,0,0,1,1}, numpy_i64({3, 2, 9, 2, 9, 9, 3, 3, 9, 9, 0, 0}), true);
  std::vector<int64_t> offs; for (int64_t i = 0; i <= 12; i++) offs.push_back(2 * i);
  ContentPtr x = listoffset<int64_t>(offs, iota_f64(24));
  ContentPtr a = regular(record({x, y}, {"x", "y"}, 12), 3);
  std::cout << "input validity: '" << verr(a) << "'" << std::endl;
  ak::ReducerSum sum;
  int bad = 0;
  for (int keep = 0; keep < 2; keep++) {
    std::cout << "sum axis=-2 keepdims=" << keep << " : ";
    try {
      ContentPtr out = a->reduce(sum, -2, false, keep);
      std::string e = verr(out);
      if (!e.empty()) { std::cout << "FAIL invalid result: " << e.substr(0, 110) << std::endl; bad++; }
      else std::cout << "ok " << out->tojson(false, 1) << std::endl;
    } catch (std::exception& ex) { std::cout << "ok, exception: " << std::string(ex.what()).substr(0, 100) << std::endl; }
  }
  // control: same without the option in y
  ContentPtr a2 = regular(record({x, numpy_i64({3, 1, -1, 1, -2, -1, 0, 3, -1, -2, 2, 2})}, {"x", "y"}, 12), 3);
  ContentPtr out2 = a2->reduce(sum, -2, false, true);
  std::cout << "control (y not option) keepdims=1: validity '" << verr(out2) << "' " << out2->tojson(false, 1).substr(0, 80) << std::endl;
  std::cout << (bad ? "DEFECT" : "all ok") << std::endl;
  return bad ? 1 : 0;
}
