// defect8: IndexedOptionArray / ByteMaskedArray / BitMaskedArray / UnmaskedArray ::offsets_and_flattened re-wrap the flattened
// content in an option node WITHOUT simplify_optiontype() when the flattening happens deeper (offsets.length()==0).
// If the content is a UnionArray whose flattened alternatives simplify_uniontype() into one option-type array,
// the result is option-directly-inside-option, which validityerror rejects
// ("IndexedOptionArray64 contains IndexedOptionArray64, ... forgotten to call 'simplify_optiontype()'").
//   a = [[[1,2]], None, [[3]]]  as  IndexedOptionArray64(index=[0,-1,1], UnionArray(tags=[0,0], contents=[ByteMasked([[[1,2]],[[3]]])]))
//   flatten(a, axis=2)  expected a valid [[1,2], None, [3]]
#include "/verif/notes/hunt3/VALID/common.h"

int main() {
  ContentPtr lists = listoffset<int64_t>({0, 1, 2}, listoffset<int64_t>({0, 2, 3}, numpy_i64({1, 2, 3})));   // [[[1,2]],[[3]]]
  ContentPtr inneropt = bytemasked({1, 1}, lists, true);
  ContentPtr u = unionarr<int64_t>({0, 0}, {0, 1}, {inneropt});
  int bad = 0;
  std::vector<std::pair<std::string, ContentPtr>> cases = {
    {"IndexedOptionArray64", indexed<int64_t, true>({0, -1, 1}, u)},
    {"ByteMaskedArray", bytemasked({1, 1}, u, true)},
    {"BitMaskedArray", bitmasked({3}, u, true, 2, true)},
    {"UnmaskedArray", unmasked(u)},
  };
  for (auto& c : cases) {
    ContentPtr a = c.second;
    std::cout << c.first << " " << a->tojson(false, 1) << " input validity: '" << verr(a) << "'" << std::endl;
    try {
      ContentPtr out = a->offsets_and_flattened(2, 0).second;
      std::string e = verr(out);
      if (!e.empty()) { std::cout << "  FAIL flatten(axis=2) invalid: " << e.substr(0, 120) << std::endl; bad++; }
      else std::cout << "  ok " << out->tojson(false, 1) << std::endl;
    } catch (std::exception& ex) { std::cout << "  exception: " << std::string(ex.what()).substr(0, 100) << std::endl; }
  }
  std::cout << (bad ? "DEFECT" : "all ok") << std::endl;
  return bad ? 1 : 0;
}
