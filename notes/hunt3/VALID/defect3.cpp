// defect3: a jagged slice of length 0 applied to a list array of length 0 returns a ListOffsetArray64 whose
// single offset offsets[0] is UNINITIALISED memory (awkward_ListArray_getitem_jagged_apply never writes
// tooffsets[0] when the outer length is 0).  validityerror accepts it (zero-length), but every consumer of
// offsets[0] (tostring, toListOffsetArray64(true), offsets_and_flattened, compact_offsets64, ...) then works
// with garbage: e.g. toListOffsetArray64(true) yields a NumpyArray with negative shape.
//   empty = [[1.1,2.2]][0:0];  empty[ ak.Array([[0]])[0:0] ]   -> expected offsets == [0]
// Run under valgrind (DEMO_WRAPPER="valgrind -q --error-exitcode=9"): "Conditional jump depends on
// uninitialised value".  Without valgrind the demo pre-poisons the heap so the garbage is visible.
#include "/tmp/hunt3/VALID/common.h"

int main() {
  // poison the allocator's free lists so that a fresh 8-byte block is unlikely to be zero
  { std::vector<void*> ps; for (int i = 0; i < 2000; i++) { void* p = malloc(8 + (i % 5) * 8); memset(p, 0x7f, 8 + (i % 5) * 8); ps.push_back(p); } for (void* p : ps) free(p); }
  ContentPtr empty = listoffset<int64_t>({0, 2}, numpy_f64({1.1, 2.2}))->getitem_range(0, 0);
  ContentPtr sl = listoffset<int64_t>({0, 1}, numpy_i64({0}))->getitem_range(0, 0);
  ContentPtr out = empty->getitem(ak::Slice({sl->asslice()}, true));
  std::cout << "validityerror: '" << verr(out) << "'" << std::endl;
  ak::ListOffsetArray64* raw = dynamic_cast<ak::ListOffsetArray64*>(out.get());
  if (raw == nullptr) { std::cout << "unexpected class " << out->classname() << std::endl; return 2; }
  int64_t first = raw->offsets().getitem_at_nowrap(0);
  if (first != 0) {    // valgrind: conditional jump depends on uninitialised value
    std::cout << "FAIL: offsets[0] = " << first << " (uninitialised), expected 0" << std::endl;
    ContentPtr compact = raw->toListOffsetArray64(true);
    std::cout << "toListOffsetArray64(true) validityerror: " << verr(compact).substr(0, 100) << std::endl;
    return 1;
  }
  std::cout << "ok offsets[0] == 0" << std::endl;
  return 0;
}
