// defect7: validityerror_parameters for __array__ = "categorical" relies on Content::is_unique(), which is wrong
// or unimplemented for several category types, so the validity verdict is not exact:
//  (a) ACCEPTS duplicates: categories = records with ONE field and a repeated value ([{x:1},{x:1}]):
//      RecordArray::is_unique returns true when non_unique_count <= 1.
//  (b) ACCEPTS duplicates: categories = ["", ""] (all strings empty -> char buffer length 0):
//      NumpyArray::string_unique returns early when length == 0 and the caller counts offsets.length()-1 "unique" strings.
//  (c) REJECTS distinct categories: [[1,2],[2,1]] - NumpyArray::subranges_equal sorts every sublist before comparing
//      (lists are compared as multisets).
//  (d) THROWS instead of answering: categories that are a 2-d NumpyArray, a UnionArray, records with >= 2 non-unique
//      fields ("FIXME ... not implemented") - validityerror must return a string (ak.is_valid raises).
#include "/tmp/hunt3/VALID/common.h"
static ak::util::Parameters CAT() { return PAR("__array__", "\"categorical\""); }

static int expect(const std::string& label, const ContentPtr& categories, bool valid) {
  std::vector<int64_t> index; for (int64_t i = 0; i < categories->length(); i++) index.push_back(i);
  ContentPtr a = indexed<int64_t, false>(index, categories, CAT());
  std::cout << label << " categories=" << categories->tojson(false, 1) << " : ";
  try {
    std::string e = verr(a);
    bool got = e.empty();
    std::cout << (got ? "accepted" : "rejected") << (got == valid ? "  ok" : "  FAIL (expected " + std::string(valid ? "accepted" : "rejected") + ")") << std::endl;
    return got == valid ? 0 : 1;
  } catch (std::exception& ex) { std::cout << "FAIL validityerror throws: " << std::string(ex.what()).substr(0, 90) << std::endl; return 1; }
}

int main() {
  int bad = 0;
  bad += expect("control", numpy_i64({1, 2, 3}), true);
  bad += expect("control", numpy_i64({1, 2, 1}), false);
  bad += expect("control", strings({"a", "b", "a"}), false);
  bad += expect("(a)", record({numpy_i64({1, 1})}, {"x"}, 2), false);
  bad += expect("(b)", strings({"", ""}), false);
  bad += expect("(c)", listoffset<int64_t>({0, 2, 4}, numpy_i64({1, 2, 2, 1})), true);
  bad += expect("(d)", numpy2d(3, 2), true);
  bad += expect("(d)", unionarr<int64_t>({0, 1}, {0, 0}, {numpy_i64({1}), strings({"a"})}), true);
  bad += expect("(d)", record({numpy_i64({1, 1, 2}), numpy_i64({5, 6, 6})}, {"x", "y"}, 3), true);
  std::cout << (bad ? "DEFECT" : "all ok") << std::endl;
  return bad ? 1 : 0;
}
