// defect6: operations on a RecordArray with ZERO fields rebuild the result with the 4-argument RecordArray
// constructor, which infers the length from the (non-existent) fields -> length 0.  Where a record with >= 1
// field raises "too many dimensions in slice" / "axis out of range", the zero-field record silently yields a
// length-0 RecordArray that the enclosing list/option node still indexes -> INVALID layout.
//   a = [[{},{}],[{},{},{}]]
//   a[:, :, 0]                 expected: exception "too many dimensions in slice"; observed: invalid ListOffsetArray64
//   flatten(a, axis=3)         expected: exception "axis out of range";            observed: invalid ListOffsetArray64
//   opt = [{}, None, {}]  flatten(opt, axis=2): expected exception; observed invalid IndexedOptionArray64
#include "/tmp/hunt3/VALID/common.h"

static ak::SliceItemPtr all() { return std::make_shared<ak::SliceRange>(ak::Slice::none(), ak::Slice::none(), ak::Slice::none()); }
static ak::SliceItemPtr at(int64_t i) { return std::make_shared<ak::SliceAt>(i); }

static int outcome(const std::string& label, std::function<ContentPtr()> f) {
  std::cout << label << " -> ";
  try {
    ContentPtr out = f();
    std::string e = verr(out);
    if (!e.empty()) { std::cout << "FAIL invalid result: " << e.substr(0, 90) << std::endl; return 1; }
    std::cout << "valid result " << out->tojson(false, 1) << std::endl; return 0;
  } catch (std::exception& ex) { std::cout << "ok, exception: " << std::string(ex.what()).substr(0, 70) << std::endl; return 0; }
}

int main() {
  int bad = 0;
  ContentPtr a = listoffset<int64_t>({0, 2, 5}, record({}, {}, 5));
  ContentPtr a1 = listoffset<int64_t>({0, 2, 5}, record({iota_i64(5)}, {"x"}, 5));   // control with one field
  ContentPtr opt = indexed<int64_t, true>({0, -1, 1}, record({}, {}, 2));
  std::cout << a->tojson(false, 1) << "   " << a1->tojson(false, 1) << "   " << opt->tojson(false, 1) << std::endl;
  bad += outcome("one field   [:, :, 0]", [&] { return a1->getitem(ak::Slice({all(), all(), at(0)}, true)); });
  bad += outcome("zero fields [:, :, 0]", [&] { return a->getitem(ak::Slice({all(), all(), at(0)}, true)); });
  bad += outcome("one field   flatten axis=3", [&] { return a1->offsets_and_flattened(3, 0).second; });
  bad += outcome("zero fields flatten axis=3", [&] { return a->offsets_and_flattened(3, 0).second; });
  bad += outcome("zero fields option flatten axis=2", [&] { return opt->offsets_and_flattened(2, 0).second; });
  std::cout << (bad ? "DEFECT" : "all ok") << std::endl;
  return bad ? 1 : 0;
}
