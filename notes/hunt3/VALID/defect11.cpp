// defect11 (low): NumpyArray::bytelength() is wrong for zero-size multi-dimensional arrays with a negative stride:
// for shape (0,1,1), strides (-16,16,8) it returns itemsize + sum((shape[i]-1)*strides[i]) = 8 + 16 = 24 instead of 0,
// so tostring() (the Python repr) reads 24 bytes starting at byteoffset, past the end of the buffer.
//   a = 3x1 float64 array;  a[:5:-2, -2::2, newaxis]   (empty result)  -> repr reads out of bounds
// Run under valgrind: "Invalid read of size 1" in NumpyArray_getitem_at0 called from NumpyArray::tostring_part.
#include "/verif/notes/hunt3/VALID/common.h"
int main() {
  std::shared_ptr<double> buf = ak::kernel::malloc<double>(ak::kernel::lib::cpu, 3 * 8);
  for (int i = 0; i < 3; i++) buf.get()[i] = i;
  ContentPtr a = std::make_shared<ak::NumpyArray>(NOID, NOPAR(), buf, std::vector<ssize_t>({3, 1}), std::vector<ssize_t>({8, 8}), 0, 8,
      ak::util::dtype_to_format(ak::util::dtype::float64), ak::util::dtype::float64, ak::kernel::lib::cpu);
  auto r1 = std::make_shared<ak::SliceRange>(ak::Slice::none(), 5, -2);
  auto r2 = std::make_shared<ak::SliceRange>(-2, ak::Slice::none(), 2);
  auto nw = std::make_shared<ak::SliceNewAxis>();
  ContentPtr out = a->getitem(ak::Slice({r1, r2, nw}, true));
  ak::NumpyArray* raw = dynamic_cast<ak::NumpyArray*>(out.get());
  std::cout << "length " << raw->length() << " bytelength " << raw->bytelength() << " validity '" << verr(out) << "'" << std::endl;
  std::cout << out->tostring() << std::endl;
  if (raw->length() == 0 && raw->bytelength() != 0) { std::cout << "DEFECT: zero-size array claims " << raw->bytelength() << " bytes" << std::endl; return 1; }
  return 0;
}
