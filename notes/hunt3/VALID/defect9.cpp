// defect9 (exactness, low severity): documented constructor rules that neither the constructor nor validityerror checks.
//  (a) RecordArray(contents, recordlookup, length = -3): docs require len(x) >= length for every field *and* an actual
//      length; a negative length passes `field(i).length() < length_` trivially.  validityerror returns "".
//      (Reachable from Python: ak.layout.RecordArray([...], length=-3).)
//  (b) BitMaskedArray(..., length = -1): docs: "length >= 0".  Constructor: ceil(-1/8) computes 1, content.length() >= -1
//      passes; validityerror: mask.length()*8 < -1 and content.length() < -1 are both false -> "".
//  (c) RecordArray 5-argument constructor (with explicit length) does not check recordlookup->size() == contents.size()
//      (the 6-argument one does); validityerror does not check it either; key(i)/field(key) then index out of range.
#include "/verif/notes/hunt3/VALID/common.h"

int main() {
  int bad = 0;
  {
    ContentPtr r = record({iota_i64(3)}, {"x"}, -3);
    std::string e = verr(r);
    std::cout << "(a) RecordArray length=-3: length()=" << r->length() << " validityerror='" << e << "'" << (e.empty() ? "  FAIL (accepted)" : "  ok") << std::endl;
    if (e.empty()) bad++;
  }
  {
    try {
      ContentPtr b = bitmasked({255}, iota_i64(3), true, -1, true);
      std::string e = verr(b);
      std::cout << "(b) BitMaskedArray length=-1: length()=" << b->length() << " validityerror='" << e << "'" << (e.empty() ? "  FAIL (accepted)" : "  ok") << std::endl;
      if (e.empty()) bad++;
    } catch (std::exception& ex) { std::cout << "(b) ok, constructor throws" << std::endl; }
  }
  {
    try {
      ContentPtr r = record({iota_i64(3)}, {"x", "y"}, 3);
      std::string e = verr(r);
      std::cout << "(c) RecordArray 1 field, 2 keys: validityerror='" << e << "'" << (e.empty() ? "  FAIL (accepted)" : "  ok") << std::endl;
      if (e.empty()) bad++;
    } catch (std::exception& ex) { std::cout << "(c) ok, constructor throws" << std::endl; }
  }
  std::cout << (bad ? "DEFECT" : "all ok") << std::endl;
  return bad ? 1 : 0;
}
