// defect1: option-typed jagged slice applied to an option-typed list array returns an INVALID layout
// (or throws "jagged slice's offsets extend beyond its content") as soon as a None in the array precedes
// a non-None element.
//   array = [None, [1.1, 2.2, 3.3]]
//   slice = [[0, 1], [2]]   (type var * ?int64, e.g. the result of ak.argmax(..., keepdims=True), no actual None)
//   expected  array[slice] == [None, [3.3]]
//   observed  IndexedOptionArray64(ListOffsetArray64(offsets=[2,3], IndexedOptionArray64(index=[0,1,2], content=[3.3])))
//             -> validityerror: "index[i] >= len(content)", tojson throws.
//   second variant: slice = [[0, None], [2, None]] -> expected [None, [3.3, None]], observed: exception.
#include "/tmp/hunt3/VALID/common.h"

static int check(const ContentPtr& a, const ContentPtr& sl, const std::string& expected) {
  ak::SliceItemPtr j = sl->asslice();   // what the Python layer does with an ak.Array slice
  std::cout << a->tojson(false, 1) << " [ " << sl->tojson(false, 1) << " ]  as " << j->tostring() << std::endl;
  try {
    ContentPtr out = a->getitem(ak::Slice({j}, true));
    std::string e = verr(out);
    if (!e.empty()) { std::cout << "  FAIL: result is invalid: " << e.substr(0, 120) << std::endl; return 1; }
    std::string got = out->tojson(false, 1);
    if (got != expected) { std::cout << "  FAIL: got " << got << " expected " << expected << std::endl; return 1; }
    std::cout << "  ok " << got << std::endl;
    return 0;
  } catch (std::exception& ex) {
    std::cout << "  FAIL: throws " << std::string(ex.what()).substr(0, 120) << std::endl; return 1;
  }
}

int main() {
  int bad = 0;
  ContentPtr lists = listoffset<int64_t>({0, 3}, numpy_f64({1.1, 2.2, 3.3}));
  ContentPtr a = indexed<int64_t, true>({-1, 0}, lists);                       // [None, [1.1,2.2,3.3]]
  // control: None last -> works
  ContentPtr a2 = indexed<int64_t, true>({0, -1}, lists);                      // [[1.1,2.2,3.3], None]
  bad += check(a2, listoffset<int64_t>({0, 1, 3}, indexed<int64_t, true>({0, 1, 2}, numpy_i64({2, 0, 1}))), "[[3.3],null]");
  // defect: None first
  bad += check(a, listoffset<int64_t>({0, 2, 3}, indexed<int64_t, true>({0, 1, 2}, numpy_i64({0, 1, 2}))), "[null,[3.3]]");
  bad += check(a, listoffset<int64_t>({0, 2, 4}, indexed<int64_t, true>({0, -1, 1, -1}, numpy_i64({0, 2}))), "[null,[3.3,null]]");
  // same through a ByteMaskedArray
  ContentPtr lists2 = listoffset<int64_t>({0, 0, 3}, numpy_f64({1.1, 2.2, 3.3}));
  ContentPtr b = bytemasked({0, 1}, lists2, true);                             // [None, [1.1,2.2,3.3]]
  bad += check(b, listoffset<int64_t>({0, 2, 3}, indexed<int64_t, true>({0, 1, 2}, numpy_i64({0, 1, 2}))), "[null,[3.3]]");
  std::cout << (bad ? "DEFECT" : "all ok") << std::endl;
  return bad ? 1 : 0;
}
