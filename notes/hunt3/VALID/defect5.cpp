// defect5: a NEGATIVE axis that has to be resolved below a RecordArray is wrapped relative to the field node
// (Content::axis_wrap_if_negative returns purelist_depth + axis, i.e. counted from that node) but is then compared
// with the ABSOLUTE depth argument.  Below a record inside a list (depth >= 1) the two differ, so the operation
// acts one or more levels too high.
//   a = [[{x:[1,2]},{x:[3]}],[{x:[]}]]
//   num(axis=-1)        expected [[{x:2},{x:1}],[{x:0}]]         observed: the field becomes a SCALAR NumpyArray ->
//                       RecordArray "len(field(0)) < len(recordarray)" (invalid), tojson/tostring then crash (SIGSEGV)
//   localindex(axis=-1) expected [[{x:[0,1]},{x:[0]}],[{x:[]}]]  observed [[{x:0},{x:1}],[{x:2}]]
//   rpad(3, axis=-1)    expected inner lists padded to 3         observed unchanged
//   num(axis=2) (the same axis, written non-negatively) is correct.
//   The same happens below a UnionArray with alternatives of different depth that sits inside a list.
#include "/tmp/hunt3/VALID/common.h"
#include <unistd.h>
#include <sys/wait.h>

int main() {
  ContentPtr x = listoffset<int64_t>({0, 2, 3, 3}, numpy_f64({1.0, 2.0, 3.0}));
  ContentPtr rec = record({x}, {"x"}, 3);
  ContentPtr a = listoffset<int64_t>({0, 2, 3}, rec);
  std::cout << a->tojson(false, 1) << std::endl;
  int bad = 0;
  {
    std::string pos = a->num(2, 0)->tojson(false, 1);
    std::cout << "num(axis=2)  = " << pos << std::endl;
    ContentPtr neg = a->num(-1, 0);
    std::string e = verr(neg);
    std::cout << "num(axis=-1) validityerror: '" << e.substr(0, 100) << "'" << std::endl;
    if (!e.empty()) bad++;
    else if (neg->tojson(false, 1) != pos) { std::cout << "num(axis=-1) = " << neg->tojson(false, 1) << std::endl; bad++; }
    // converting the invalid result to JSON crashes; do it in a child
    std::cout.flush();
    pid_t pid = fork();
    if (pid == 0) { try { neg->tojson(false, 1); } catch (...) {} _exit(0); }
    int status = 0; waitpid(pid, &status, 0);
    if (WIFSIGNALED(status)) { std::cout << "tojson(num(axis=-1)) crashed with signal " << WTERMSIG(status) << std::endl; bad++; }
  }
  {
    std::string pos = a->localindex(2, 0)->tojson(false, 1);
    std::string neg = a->localindex(-1, 0)->tojson(false, 1);
    std::cout << "localindex(axis=2) = " << pos << "\nlocalindex(axis=-1) = " << neg << std::endl;
    if (pos != neg) bad++;
  }
  {
    std::string pos = a->rpad(3, 2, 0)->tojson(false, 1);
    std::string neg = a->rpad(3, -1, 0)->tojson(false, 1);
    std::cout << "rpad(3, axis=2) = " << pos << "\nrpad(3, axis=-1) = " << neg << std::endl;
    if (pos != neg) bad++;
  }
  {
    // same root cause below a UnionArray whose alternatives have different depth, when the union is not at depth 0
    ContentPtr c0 = listoffset<int64_t>({0, 2, 3}, numpy_i64({1, 2, 3}));                                    // [[1,2],[3]]
    ContentPtr c1 = listoffset<int64_t>({0, 2}, listoffset<int64_t>({0, 1, 3}, numpy_i64({4, 5, 6})));      // [[[4],[5,6]]]
    ContentPtr u = unionarr<int64_t>({0, 1, 0}, {0, 0, 1}, {c0, c1});
    ContentPtr b = listoffset<int64_t>({0, 2, 3}, u);                                                       // [[[1,2],[[4],[5,6]]],[[3]]]
    std::cout << "top-level union num(axis=-1) = " << u->num(-1, 0)->tojson(false, 1) << "   (correct: [2,[1,2],1])" << std::endl;
    ContentPtr out = b->num(-1, 0);
    std::string e = verr(out);
    std::cout << "same union inside a list, num(axis=-1): validityerror '" << e.substr(0, 100) << "'  (expected [[2,[1,2]],[1]])" << std::endl;
    if (!e.empty() || out->tojson(false, 1) != "[[2,[1,2]],[1]]") bad++;
  }
  std::cout << (bad ? "DEFECT" : "all ok") << std::endl;
  return bad ? 1 : 0;
}
