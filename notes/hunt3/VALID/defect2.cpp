// defect2: UnionArray::offsets_and_flattened (ak.flatten) with axis=-1 on a union whose alternatives have
// different list depth: `has_offsets` is overwritten by every alternative (last one wins) instead of being
// checked for agreement, so
//  (a) last alternative deeper (returns no offsets), earlier one shallower (its length changes):
//      the old tags/index are reused with the flattened contents -> INVALID UnionArray (index >= len(content));
//  (b) last alternative returns offsets, an earlier one does not: the kernel dereferences a null offsets
//      pointer -> SIGSEGV.
// Expected: a clean exception (the axis resolves to different levels in the alternatives) or a valid array.
#include "/tmp/hunt3/VALID/common.h"
#include <unistd.h>
#include <sys/wait.h>

static int run(const ContentPtr& a, const std::string& label) {
  std::cout << label << ": " << a->tojson(false, 1) << "  flatten(axis=-1)" << std::endl;
  std::cout.flush();
  pid_t pid = fork();
  if (pid == 0) {
    try {
      ContentPtr out = a->offsets_and_flattened(-1, 0).second;
      std::string e = verr(out);
      if (!e.empty()) { std::cout << "  FAIL: invalid result: " << e.substr(0, 120) << std::endl; _exit(1); }
      std::cout << "  ok, valid result " << out->tojson(false, 1) << std::endl; _exit(0);
    } catch (std::exception& ex) { std::cout << "  ok, clean exception: " << std::string(ex.what()).substr(0, 100) << std::endl; _exit(0); }
  }
  int status = 0; waitpid(pid, &status, 0);
  if (WIFSIGNALED(status)) { std::cout << "  FAIL: crashed with signal " << WTERMSIG(status) << std::endl; return 1; }
  return WEXITSTATUS(status);
}

int main() {
  ContentPtr shallow = listoffset<int64_t>({0, 2, 2, 3}, numpy_f64({4, 3, 1}));                                   // [[4,3],[],[1]]
  ContentPtr deep = listoffset<int64_t>({0, 1, 3}, listoffset<int64_t>({0, 2, 2, 3}, numpy_i64({1, 2, 3})));    // [[[1,2]],[[],[3]]]
  int bad = 0;
  // (a) shallow first, deep last; only the shallow alternative is referenced
  ContentPtr shallow5 = listoffset<int64_t>({0, 2, 2, 3, 3, 3}, numpy_f64({4, 3, 1}));                            // [[4,3],[],[1],[],[]]
  bad += run(unionarr<int64_t>({0, 0, 0, 0, 0, 1}, {0, 1, 2, 3, 4, 0}, {shallow5, deep}), "(a)");
  // (b) deep first, shallow last
  bad += run(unionarr<int64_t>({0, 0, 1}, {0, 1, 0}, {deep, shallow}), "(b)");
  std::cout << (bad ? "DEFECT" : "all ok") << std::endl;
  return bad ? 1 : 0;
}
