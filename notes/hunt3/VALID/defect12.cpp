// defect12: heap buffer overflow (read AND write) in Content::sort with an axis that needs TWO consecutive
// "non-local" levels (e.g. axis=0 or axis=1 on a list-of-list-of-list array).
// ListOffsetArray64::sort_next (non-local branch) recurses with outlength = nextcontent->length(), whereas
// reduce_next/argsort_next pass maxnextparents + 1.  One level down, `Index64 distincts(maxcount * outlength)` is
// then too small for the sparse parents (parent*maxcount + diff) and
// awkward_ListOffsetArray_reduce_nonlocal_preparenext_64 reads and writes distincts[nextparents[k]] out of bounds.
// The sorted values come out right when the overflow happens to hit nothing important, so this demo must be run
// under valgrind:  DEMO_WRAPPER="valgrind -q --error-exitcode=9"  -> "Invalid read of size 8" / "Invalid write".
// (Without valgrind it compares sort with a reference and normally exits 0.)
#include "/tmp/hunt3/VALID/common.h"

int main() {
  // [[],[[[],[],[-2]],[]],[],[],[[],[],[[-2,1,-3]]]]
  ContentPtr a = listoffset<int64_t>({0, 0, 2, 2, 2, 5},
                   listoffset<int64_t>({0, 3, 3, 3, 3, 4},
                     listoffset<int64_t>({0, 0, 0, 1, 4, 4}, numpy_i64({-2, -2, 1, -3, 1, 2}))));
  std::cout << a->tojson(false, 1) << std::endl;
  int bad = 0;
  for (int64_t axis : {0, 1}) {
    ContentPtr out = a->sort(axis, true, true);
    std::string e = verr(out);
    std::string got = out->tojson(false, 1);
    // nothing can move: at every position along axis 0 / axis 1 at most one element is present
    std::string expected = a->tojson(false, 1);
    std::cout << "sort(axis=" << axis << ") = " << got << " validity '" << e << "'" << std::endl;
    if (!e.empty() || got != expected) bad++;
  }
  std::cout << (bad ? "DEFECT (wrong result)" : "values ok (run under valgrind to see the overflow)") << std::endl;
  return bad ? 1 : 0;
}
