// Random valid-layout generator over all node classes.
#ifndef VALID_GEN_H
#define VALID_GEN_H
#include "/tmp/hunt3/VALID/common.h"

struct GenOpts {
  bool allow_option = true;   // parent is not an option/indexed node
  bool allow_union = true;    // parent is not a union
  bool strings = true;
  bool numpy2d = true;
  bool unions = true;
  bool records = true;
  bool bitmasked = true;
};

template <typename T>
static ContentPtr rnd_np(Rng& r, int64_t n, ak::util::dtype dt, int64_t lo, int64_t hi) {
  std::vector<T> v; for (int64_t i = 0; i < n; i++) v.push_back((T)r.range(lo, hi));
  bool fancy = r.range(0, 3) == 0;
  return numpy_t<T>(v, dt, NOPAR(), fancy ? r.range(0, 2) : 0, fancy ? r.range(1, 2) : 1);
}

static ContentPtr gen_leaf(Rng& r, int64_t n, const GenOpts& o) {
  int k = (int)r.range(0, 11);
  if (n == 0 && r.range(0, 2) == 0) return emptyarr();
  switch (k) {
    case 0: case 1: case 2: return rnd_np<double>(r, n, ak::util::dtype::float64, -3, 5);
    case 3: case 4: return rnd_np<int64_t>(r, n, ak::util::dtype::int64, -3, 5);
    case 5: return rnd_np<int32_t>(r, n, ak::util::dtype::int32, -3, 5);
    case 6: return rnd_np<uint8_t>(r, n, ak::util::dtype::boolean, 0, 1);
    case 7: return rnd_np<uint8_t>(r, n, ak::util::dtype::uint8, 0, 5);
    case 8: return rnd_np<float>(r, n, ak::util::dtype::float32, -3, 5);
    case 9:
      if (o.strings) {
        std::vector<std::string> v;
        for (int64_t i = 0; i < n; i++) { std::string s; int64_t l = r.range(0, 3); for (int64_t j = 0; j < l; j++) s += (char)('a' + r.range(0, 3)); v.push_back(s); }
        return strings(v, r.range(0, 3) == 0);
      }
      return rnd_np<int64_t>(r, n, ak::util::dtype::int64, -3, 5);
    case 10:
      if (o.numpy2d) return numpy2d(n, r.range(0, 3));
      return rnd_np<double>(r, n, ak::util::dtype::float64, -3, 5);
    default: return rnd_np<int16_t>(r, n, ak::util::dtype::int16, -3, 5);
  }
}

static ContentPtr gen(Rng& r, int depth, int64_t n, GenOpts o);

static ContentPtr gen_child(Rng& r, int depth, int64_t n, GenOpts o, bool allow_option, bool allow_union) {
  o.allow_option = allow_option; o.allow_union = allow_union;
  return gen(r, depth - 1, n, o);
}

static ContentPtr gen(Rng& r, int depth, int64_t n, GenOpts o) {
  if (depth <= 0) return gen_leaf(r, n, o);
  for (;;) {
    int k = (int)r.range(0, 15);
    switch (k) {
      case 0: return gen_leaf(r, n, o);
      case 1: case 2: {  // ListOffsetArray
        std::vector<int64_t> offs; offs.push_back(r.range(0, 3) == 0 ? r.range(1, 3) : 0);
        for (int64_t i = 0; i < n; i++) offs.push_back(offs.back() + (r.range(0, 3) == 0 ? 0 : r.range(0, 3)));
        int64_t m = offs.back() + (r.range(0, 2) == 0 ? r.range(1, 2) : 0);
        ContentPtr c = gen_child(r, depth, m, o, true, true);
        int w = (int)r.range(0, 3);
        return w == 0 ? listoffset<int32_t>(offs, c) : w == 1 ? listoffset<uint32_t>(offs, c) : listoffset<int64_t>(offs, c);
      }
      case 3: case 4: {  // ListArray: gaps, overlaps, out of order
        int64_t m = r.range(0, 8);
        ContentPtr c = gen_child(r, depth, m, o, true, true);
        std::vector<int64_t> st, sp;
        for (int64_t i = 0; i < n; i++) {
          int64_t a = r.range(0, m), b = r.range(0, m); if (a > b) std::swap(a, b); if (b - a > 3) b = a + 3;
          if (r.range(0, 4) == 0) b = a;
          st.push_back(a); sp.push_back(b);
        }
        if (r.range(0, 4) == 0) sp.push_back(99);  // stops longer than starts
        int w = (int)r.range(0, 3);
        return w == 0 ? listarr<int32_t>(st, sp, c) : w == 1 ? listarr<uint32_t>(st, sp, c) : listarr<int64_t>(st, sp, c);
      }
      case 5: {  // RegularArray
        int64_t size = r.range(0, 3);
        int64_t m = n * size + (size > 1 ? r.range(0, size - 1) : 0);
        ContentPtr c = gen_child(r, depth, m, o, true, true);
        return regular(c, size, n);
      }
      case 6: {  // IndexedArray
        if (!o.allow_option) continue;
        int64_t m = n == 0 ? r.range(0, 3) : r.range(1, 6);
        ContentPtr c = gen_child(r, depth, m, o, false, true);
        std::vector<int64_t> ix; for (int64_t i = 0; i < n; i++) ix.push_back(r.range(0, m - 1));
        int w = (int)r.range(0, 3);
        return w == 0 ? indexed<int32_t, false>(ix, c) : w == 1 ? indexed<uint32_t, false>(ix, c) : indexed<int64_t, false>(ix, c);
      }
      case 7: case 8: {  // IndexedOptionArray
        if (!o.allow_option) continue;
        int64_t m = r.range(0, 6);
        ContentPtr c = gen_child(r, depth, m, o, false, true);
        std::vector<int64_t> ix; for (int64_t i = 0; i < n; i++) ix.push_back((m == 0 || r.range(0, 2) == 0) ? -r.range(1, 2) : r.range(0, m - 1));
        return r.coin() ? indexed<int32_t, true>(ix, c) : indexed<int64_t, true>(ix, c);
      }
      case 9: {  // ByteMaskedArray
        if (!o.allow_option) continue;
        ContentPtr c = gen_child(r, depth, n + (r.range(0, 2) == 0 ? r.range(1, 2) : 0), o, false, true);
        std::vector<int64_t> mk; for (int64_t i = 0; i < n; i++) mk.push_back(r.range(0, 1));
        return bytemasked(mk, c, r.coin());
      }
      case 10: {  // BitMaskedArray
        if (!o.allow_option || !o.bitmasked) continue;
        ContentPtr c = gen_child(r, depth, n + (r.range(0, 2) == 0 ? r.range(1, 2) : 0), o, false, true);
        int64_t nb = (n + 7) / 8 + (r.range(0, 3) == 0 ? 1 : 0);
        std::vector<int64_t> mk; for (int64_t i = 0; i < nb; i++) mk.push_back(r.range(0, 255));
        return bitmasked(mk, c, r.coin(), n, r.coin());
      }
      case 11: {  // UnmaskedArray
        if (!o.allow_option) continue;
        return unmasked(gen_child(r, depth, n, o, false, true));
      }
      case 12: case 13: {  // RecordArray
        if (!o.records) continue;
        int64_t nf = r.range(0, 3);
        ContentPtrVec fs; std::vector<std::string> keys;
        for (int64_t i = 0; i < nf; i++) {
          fs.push_back(gen_child(r, depth, n + (r.range(0, 3) == 0 ? r.range(1, 2) : 0), o, true, true));
          keys.push_back(std::string(1, (char)('x' + i)));
        }
        return record(fs, keys, n, r.range(0, 3) == 0);
      }
      default: {  // UnionArray
        if (!o.allow_union || !o.unions) continue;
        int64_t nc = r.range(1, 3);
        std::vector<int64_t> lens; ContentPtrVec cs;
        for (int64_t i = 0; i < nc; i++) { lens.push_back(n == 0 ? r.range(0, 2) : r.range(1, 4)); }
        for (int64_t i = 0; i < nc; i++) cs.push_back(gen_child(r, depth, lens[(size_t)i], o, true, false));
        std::vector<int64_t> tags, ix;
        for (int64_t i = 0; i < n; i++) { int64_t t = r.range(0, nc - 1); tags.push_back(t); ix.push_back(r.range(0, lens[(size_t)t] - 1)); }
        int w = (int)r.range(0, 3);
        return w == 0 ? unionarr<int32_t>(tags, ix, cs) : w == 1 ? unionarr<uint32_t>(tags, ix, cs) : unionarr<int64_t>(tags, ix, cs);
      }
    }
  }
}

#endif
