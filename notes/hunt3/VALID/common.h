// Shared helpers for the VALID hunt demos.
#ifndef VALID_COMMON_H
#define VALID_COMMON_H
#include <cstdint>
#include <cstring>
#include <iostream>
#include <memory>
#include <stdexcept>
#include <string>
#include <vector>
#include <functional>

#include "awkward/Content.h"
#include "awkward/Identities.h"
#include "awkward/Index.h"
#include "awkward/Slice.h"
#include "awkward/Reducer.h"
#include "awkward/array/ListOffsetArray.h"
#include "awkward/array/ListArray.h"
#include "awkward/array/RegularArray.h"
#include "awkward/array/IndexedArray.h"
#include "awkward/array/ByteMaskedArray.h"
#include "awkward/array/BitMaskedArray.h"
#include "awkward/array/UnmaskedArray.h"
#include "awkward/array/UnionArray.h"
#include "awkward/array/RecordArray.h"
#include "awkward/array/Record.h"
#include "awkward/array/EmptyArray.h"
#include "awkward/array/NumpyArray.h"
#include "awkward/kernel-dispatch.h"
#include "awkward/util.h"

namespace ak = awkward;
using ak::ContentPtr;
using ak::ContentPtrVec;

static const ak::IdentitiesPtr NOID = ak::Identities::none();
static inline ak::util::Parameters NOPAR() { return ak::util::Parameters(); }
static inline ak::util::Parameters PAR(const std::string& k, const std::string& v) {
  ak::util::Parameters p; p[k] = v; return p;
}

template <typename T>
ak::IndexOf<T> idx(const std::vector<int64_t>& v) {
  ak::IndexOf<T> out((int64_t)v.size());
  for (size_t i = 0; i < v.size(); i++) out.setitem_at_nowrap((int64_t)i, (T)v[i]);
  return out;
}

template <typename T>
ContentPtr numpy_t(const std::vector<T>& v, ak::util::dtype dt, const ak::util::Parameters& par = ak::util::Parameters(),
                   int64_t pad_front = 0, int64_t stride_items = 1) {
  // buffer: pad_front items, then items spaced stride_items apart
  int64_t n = (int64_t)v.size();
  int64_t total = pad_front + n * stride_items + 1;
  std::shared_ptr<T> buf = ak::kernel::malloc<T>(ak::kernel::lib::cpu, total * (int64_t)sizeof(T));
  std::memset(buf.get(), 0x55, total * sizeof(T));
  for (int64_t i = 0; i < n; i++) buf.get()[pad_front + i * stride_items] = v[i];
  return std::make_shared<ak::NumpyArray>(NOID, par, buf,
      std::vector<ssize_t>({(ssize_t)n}), std::vector<ssize_t>({(ssize_t)(sizeof(T) * stride_items)}),
      (ssize_t)(pad_front * sizeof(T)), (ssize_t)sizeof(T), ak::util::dtype_to_format(dt), dt, ak::kernel::lib::cpu);
}

static inline ContentPtr numpy_f64(const std::vector<double>& v) { return numpy_t<double>(v, ak::util::dtype::float64); }
static inline ContentPtr numpy_i64(const std::vector<int64_t>& v) { return numpy_t<int64_t>(v, ak::util::dtype::int64); }
static inline ContentPtr numpy_u8(const std::vector<uint8_t>& v, const ak::util::Parameters& par = ak::util::Parameters()) {
  return numpy_t<uint8_t>(v, ak::util::dtype::uint8, par);
}
static inline ContentPtr iota_f64(int64_t n) { std::vector<double> v; for (int64_t i = 0; i < n; i++) v.push_back(i + 0.5); return numpy_f64(v); }
static inline ContentPtr iota_i64(int64_t n) { std::vector<int64_t> v; for (int64_t i = 0; i < n; i++) v.push_back(i); return numpy_i64(v); }

// 2-d numpy (rows x cols) of float64, C contiguous
static inline ContentPtr numpy2d(int64_t rows, int64_t cols) {
  int64_t total = rows * cols + 1;
  std::shared_ptr<double> buf = ak::kernel::malloc<double>(ak::kernel::lib::cpu, total * 8);
  for (int64_t i = 0; i < total; i++) buf.get()[i] = (double)((i * 7) % 11);
  return std::make_shared<ak::NumpyArray>(NOID, NOPAR(), buf,
      std::vector<ssize_t>({(ssize_t)rows, (ssize_t)cols}), std::vector<ssize_t>({(ssize_t)(8 * cols), 8}),
      0, 8, ak::util::dtype_to_format(ak::util::dtype::float64), ak::util::dtype::float64, ak::kernel::lib::cpu);
}

template <typename T>
ContentPtr listoffset(const std::vector<int64_t>& offsets, const ContentPtr& c, const ak::util::Parameters& par = ak::util::Parameters()) {
  return std::make_shared<ak::ListOffsetArrayOf<T>>(NOID, par, idx<T>(offsets), c);
}
template <typename T>
ContentPtr listarr(const std::vector<int64_t>& starts, const std::vector<int64_t>& stops, const ContentPtr& c,
                   const ak::util::Parameters& par = ak::util::Parameters()) {
  return std::make_shared<ak::ListArrayOf<T>>(NOID, par, idx<T>(starts), idx<T>(stops), c);
}
static inline ContentPtr regular(const ContentPtr& c, int64_t size, int64_t zeros_length = 0, const ak::util::Parameters& par = ak::util::Parameters()) {
  return std::make_shared<ak::RegularArray>(NOID, par, c, size, zeros_length);
}
template <typename T, bool OPT>
ContentPtr indexed(const std::vector<int64_t>& index, const ContentPtr& c, const ak::util::Parameters& par = ak::util::Parameters()) {
  return std::make_shared<ak::IndexedArrayOf<T, OPT>>(NOID, par, idx<T>(index), c);
}
static inline ContentPtr bytemasked(const std::vector<int64_t>& mask, const ContentPtr& c, bool valid_when) {
  return std::make_shared<ak::ByteMaskedArray>(NOID, NOPAR(), idx<int8_t>(mask), c, valid_when);
}
static inline ContentPtr bitmasked(const std::vector<int64_t>& maskbytes, const ContentPtr& c, bool valid_when, int64_t length, bool lsb) {
  return std::make_shared<ak::BitMaskedArray>(NOID, NOPAR(), idx<uint8_t>(maskbytes), c, valid_when, length, lsb);
}
static inline ContentPtr unmasked(const ContentPtr& c) {
  return std::make_shared<ak::UnmaskedArray>(NOID, NOPAR(), c);
}
template <typename I>
ContentPtr unionarr(const std::vector<int64_t>& tags, const std::vector<int64_t>& index, const ContentPtrVec& contents) {
  return std::make_shared<ak::UnionArrayOf<int8_t, I>>(NOID, NOPAR(), idx<int8_t>(tags), idx<I>(index), contents);
}
static inline ContentPtr record(const ContentPtrVec& contents, const std::vector<std::string>& keys, int64_t length, bool tuple = false) {
  ak::util::RecordLookupPtr lookup(nullptr);
  if (!tuple) lookup = std::make_shared<ak::util::RecordLookup>(keys);
  return std::make_shared<ak::RecordArray>(NOID, NOPAR(), contents, lookup, length);
}
static inline ContentPtr emptyarr() { return std::make_shared<ak::EmptyArray>(NOID, NOPAR()); }

static inline ContentPtr strings(const std::vector<std::string>& v, bool bytes = false) {
  std::vector<uint8_t> chars; std::vector<int64_t> offs; offs.push_back(0);
  for (auto& s : v) { for (char c : s) chars.push_back((uint8_t)c); offs.push_back((int64_t)chars.size()); }
  ContentPtr c = numpy_u8(chars, PAR("__array__", bytes ? "\"byte\"" : "\"char\""));
  return listoffset<int64_t>(offs, c, PAR("__array__", bytes ? "\"bytestring\"" : "\"string\""));
}

struct Rng {
  uint64_t s;
  explicit Rng(uint64_t seed) : s(seed * 2654435761ULL + 88172645463325252ULL) {}
  uint64_t next() { s ^= s << 13; s ^= s >> 7; s ^= s << 17; return s; }
  int64_t range(int64_t lo, int64_t hi) { /* inclusive */ return lo + (int64_t)(next() % (uint64_t)(hi - lo + 1)); }
  bool coin() { return next() & 1; }
};

static inline std::string verr(const ContentPtr& c) { return c.get()->validityerror("layout"); }

#endif
