// defect13 (low, known family): list operations treat a string (__array__="string" list of __array__="char") as an
// ordinary list at the character axis and return layouts that validityerror rejects:
//   s = ["ab","c"]
//   rpad(3, axis=1)          -> ListOffsetArray64[__array__=string] whose content is IndexedOptionArray64(char)  (invalid)
//   rpad_and_clip(3, axis=1) -> RegularArray[__array__=string] over option(char)                                (invalid)
//   jagged slice s[[[0],[0]]] -> ListOffsetArray64 (no parameter) over the bare char array                      (invalid)
// Expected (property): a valid layout (drop the string/char parameters when the node stops being a string) or an exception.
#include "/tmp/hunt3/VALID/common.h"
int main() {
  ContentPtr s = strings({"ab", "c"});
  int bad = 0;
  auto check = [&](const std::string& label, std::function<ContentPtr()> f) {
    std::cout << label << " -> ";
    try { ContentPtr out = f(); std::string e = verr(out); if (e.empty()) std::cout << "valid " << out->tojson(false, 1) << std::endl; else { std::cout << "FAIL invalid: " << e.substr(0, 110) << std::endl; bad++; } }
    catch (std::exception& ex) { std::cout << "ok, exception " << std::string(ex.what()).substr(0, 80) << std::endl; }
  };
  check("rpad(3, axis=1)", [&] { return s->rpad(3, 1, 0); });
  check("rpad_and_clip(3, axis=1)", [&] { return s->rpad_and_clip(3, 1, 0); });
  check("s[[[0],[0]]]", [&] { ContentPtr sl = listoffset<int64_t>({0, 1, 2}, numpy_i64({0, 0})); return s->getitem(ak::Slice({sl->asslice()}, true)); });
  std::cout << (bad ? "DEFECT" : "all ok") << std::endl;
  return bad ? 1 : 0;
}
