// defect1: concatenation leaves a UnionArray nested inside a UnionArray (fails validityerror),
// because UnionArray::simplify_uniontype flattens only ONE level of nesting.
//  (a) pure C++: simplify_uniontype on Union[Union[Union[int64,string],string],string]
//  (b) through the ak.concatenate(axis=0) batching loop (replicated in h.h: concat):
//      [1,2] ++ ["a"] ++ ["b"] ++ ["c"]      (numbers, then three string arrays)
//      ["x"] ++ union[int64,string] ++ ["y"]
// exit 0 iff every result passes validityerror and has the right elements.
#include "/tmp/hunt3/MERGE/h.h"
int main() {
  int bad = 0;
  ContentPtr n = numpy<int64_t>({1, 2});
  ContentPtr s1 = stringarr({"a"}), s2 = stringarr({"b"}), s3 = stringarr({"c"});
  // (a) build the triple nesting by hand and simplify it
  ContentPtr u1 = n->merge_as_union(s1);
  ContentPtr u2 = u1->merge_as_union(s2);
  ContentPtr u3 = u2->merge_as_union(s3);
  ContentPtr simp = dynamic_cast<ak::UnionArray8_64*>(u3.get())->simplify_uniontype(true, true);
  std::string ve = simp->validityerror("simplified");
  std::cout << "(a) simplify_uniontype(Union[Union[Union[int64,string],string],string]) -> " << typestr(simp) << "\n    validityerror: '" << ve << "'" << std::endl;
  if (!ve.empty() || join(elems(simp)) != "[1,2,\"a\",\"b\",\"c\"]") bad++;
  // (b) through the concatenate loop
  if (!check_concat("(b1) [1,2] ++ [\"a\"] ++ [\"b\"] ++ [\"c\"]", {n, s1, s2, s3}, true, true)) bad++;
  ContentPtr u = unionarr<int32_t>({0, 1}, {0, 0}, {numpy<int64_t>({7}), stringarr({"u"})});
  if (!check_concat("(b2) [\"x\"] ++ union[7,\"u\"] ++ [\"y\"]", {stringarr({"x"}), u, stringarr({"y"})}, true, true)) bad++;
  std::cout << (bad ? "DEFECT" : "ok") << std::endl;
  return bad ? 1 : 0;
}
