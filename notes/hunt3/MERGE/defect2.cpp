// defect2: an EmptyArray (or any unknown-type piece) between two arrays of different types.
// ak.concatenate's batching loop tests only batch[-1].mergeable(x); EmptyArray is mergeable with
// everything, so X ++ [] ++ Y puts X and Y in one mergemany batch although X.mergeable(Y) is false.
//  (a) [[1,2]] ++ [] ++ [3.3]          -> exception "cannot merge ListArray64 with NumpyArray"
//  (b) [None,"aa"] ++ [] ++ [[11,12]]  -> NO exception, wrong values: NumpyArray::mergemany's string
//      path copies the int64 buffer as bytes
//  (c) pure C++: strings->mergemany({list of int64}) returns garbage instead of throwing like every
//      other unmergeable combination does.
// exit 0 iff (a),(b) give the concatenation and (c) throws or gives [..,[11,12],[13]].
#include "/tmp/hunt3/MERGE/h.h"
int main() {
  int bad = 0;
  ContentPtr lst = listoffset<int64_t>({0, 2}, numpy<int64_t>({1, 2}));
  ContentPtr flt = numpy<double>({3.3});
  if (!check_concat("(a) [[1,2]] ++ [] ++ [3.3]", {lst, empty(), flt}, true, true)) bad++;
  ContentPtr optstr = indexedopt<int64_t>({-1, 0}, stringarr({"aa"}));
  ContentPtr ints = listoffset<int64_t>({0, 2}, numpy<int64_t>({11, 12}));
  if (!check_concat("(b) [None,\"aa\"] ++ [] ++ [[11,12]]", {optstr, empty(), ints}, true, true)) bad++;
  // nested unknown: var*var*int ++ var*unknown ++ var*int
  ContentPtr ll = listoffset<int64_t>({0, 1}, listoffset<int64_t>({0, 2}, numpy<int64_t>({1, 2})));
  ContentPtr lu = listoffset<int64_t>({0, 0}, empty());
  if (!check_concat("(a') [[[1,2]]] ++ [[]] ++ [[1,2]]", {ll, lu, lst}, true, true)) bad++;
  // (c)
  ContentPtr s = stringarr({"ab", "c"});
  ContentPtr l = listoffset<int64_t>({0, 2, 3}, numpy<int64_t>({11, 12, 13}));
  try {
    ContentPtr out = s->mergemany({l});
    std::string got = out->tojson(false, -1);
    std::cout << "(c) strings.mergemany({[[11,12],[13]]}) = " << got << "  (mergeable() said " << s->mergeable(l, true) << ")" << std::endl;
    if (got.find("[11,12],[13]") == std::string::npos) bad++;
  } catch (std::exception& e) { std::cout << "(c) throws (fine): " << std::string(e.what()).substr(0, 60) << std::endl; }
  std::cout << (bad ? "DEFECT" : "ok") << std::endl;
  return bad ? 1 : 0;
}
