// defect5: UnionArray8_64::nested_tags_index (used by ak.concatenate for axis >= 1) with 128 or more
// arrays: the loop "for (T tag = 0; tag < (T)counts.size(); tag++)" casts the count to int8, 128
// becomes -128, the loop body never runs and tags/index are returned UNINITIALISED (no exception);
// for 257 arrays (T)257 == 1 and only the first array is filled in.
// 127 arrays work. exit 0 iff the result is right or an exception is raised.
// (run under valgrind to see the uninitialised reads)
#include "/tmp/hunt3/MERGE/h.h"
static void poison() {  // make recycled heap memory non-matching
  for (size_t sz : {128, 200, 257, 1024, 1600, 2056}) { void* p = malloc(sz); memset(p, 0x55, sz); free(p); }
}
int main() {
  int worst = 0;
  for (int n : {128, 200, 257, 127}) {
    ak::Index64 offsets = idx<int64_t>({0, n});
    std::vector<ak::Index64> counts;
    for (int i = 0; i < n; i++) counts.push_back(idx<int64_t>({1}));
    poison();
    try {
      auto ti = ak::UnionArray8_64::nested_tags_index(offsets, counts);
      int bad = 0;
      for (int j = 0; j < n; j++)
        if (ti.first.getitem_at_nowrap(j) != (int8_t)j || j > 127 || ti.second.getitem_at_nowrap(j) != 0) bad++;
      std::cout << "n=" << n << ": " << bad << " of " << n << " tag/index entries wrong, no exception" << std::endl;
      if (bad) worst = 1;
    } catch (std::exception& e) { std::cout << "n=" << n << ": exception (fine)" << std::endl; }
  }
  std::cout << (worst ? "DEFECT" : "ok") << std::endl;
  return worst;
}
