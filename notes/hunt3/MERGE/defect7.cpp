// defect7 (minor): RecordArray::mergemany intersects the parameters of the inputs only in the tuple
// branch; for records with field names util::merge_parameters is never called, so the result keeps
// the FIRST array's parameters even where the others disagree. Every other node class (and tuples)
// drops a parameter that is not equal in all inputs.
#include "/tmp/hunt3/MERGE/h.h"
int main() {
  int bad = 0;
  Params p1; p1["note"] = "\"metres\"";
  Params p2; p2["note"] = "\"seconds\"";
  ContentPtr x = numpy<int64_t>({1, 2});
  ContentPtr r1 = record({x}, {"x"}, -1, p1), r2 = record({x}, {"x"}, -1, p2);
  ContentPtr t1 = tuple({x}, -1, p1), t2 = tuple({x}, -1, p2);
  ContentPtr l1 = listoffset<int64_t>({0, 2}, x, p1), l2 = listoffset<int64_t>({0, 2}, x, p2);
  std::string pr = r1->mergemany({r2})->parameter("note"), pt = t1->mergemany({t2})->parameter("note"), pl = l1->mergemany({l2})->parameter("note");
  std::cout << "record ++ record keeps note=" << pr << "; tuple ++ tuple note=" << pt << "; list ++ list note=" << pl << std::endl;
  if (pr != "null") bad++;
  if (pt != "null" || pl != "null") bad++;
  std::cout << (bad ? "DEFECT" : "ok") << std::endl;
  return bad ? 1 : 0;
}
