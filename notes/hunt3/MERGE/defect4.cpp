// defect4: concatenating 64 (or more) UnionArrays of two alternatives each throws
// "FIXME: handle UnionArray with more than 127 contents": UnionArray::mergemany collects the
// contents of ALL inputs (64*2 = 128) before anything is simplified, although the simplified
// result has only 2 alternatives. 63 inputs work.
#include "/tmp/hunt3/MERGE/h.h"
int main() {
  int bad = 0;
  for (int n : {63, 64, 100}) {
    ContentPtrVec inputs; std::vector<std::string> expect;
    for (int i = 0; i < n; i++) {
      inputs.push_back(unionarr<int64_t>({0, 1}, {0, 0}, {numpy<int64_t>({i}), stringarr({"s"})}));
      expect.push_back(std::to_string(i)); expect.push_back("\"s\"");
    }
    try {
      // direct C++ call; the same happens through the ak.concatenate loop (all unions are mutually mergeable)
      ContentPtr out = inputs[0]->mergemany(ContentPtrVec(inputs.begin() + 1, inputs.end()));
      out = dynamic_cast<ak::UnionArray8_64*>(out.get())->simplify_uniontype(true, true);
      bool ok = elems(out) == expect && out->validityerror("out").empty();
      std::cout << n << " x union[int64,string]: " << (ok ? "ok -> " : "WRONG -> ") << typestr(out).substr(0, 20) << "..." << std::endl;
      if (!ok) bad++;
    } catch (std::exception& e) {
      std::cout << n << " x union[int64,string]: EXCEPTION " << std::string(e.what()).substr(0, 70) << std::endl; bad++;
    }
  }
  std::cout << (bad ? "DEFECT" : "ok") << std::endl;
  return bad ? 1 : 0;
}
