// defect3: merging two categorical arrays keeps __array__="categorical" on the result while simply
// concatenating the two category lists, so the categories are no longer unique and the result
// fails validityerror ("categorical requires contents to be unique") - even for x ++ x.
#include "/tmp/hunt3/MERGE/h.h"
int main() {
  int bad = 0;
  Params cat; cat["__array__"] = "\"categorical\"";
  ContentPtr c1 = indexed<int64_t>({0, 1, 0}, stringarr({"a", "b"}), cat);
  ContentPtr c2 = indexed<int32_t>({1, 0}, stringarr({"a", "c"}), cat);
  ContentPtr c3 = indexedopt<int64_t>({1, -1}, numpy<int64_t>({5, 6}), cat);
  ContentPtr c4 = indexed<int64_t>({1, 1}, numpy<int64_t>({6, 7}), cat);
  if (!check_concat("cat(a,b) ++ cat(a,c)", {c1, c2}, true, true)) bad++;
  if (!check_concat("cat ++ same cat", {c1, c1}, true, true)) bad++;
  if (!check_concat("optcat(5,6) ++ cat(6,7)", {c3, c4}, true, true)) bad++;
  if (!check_concat("cat(6,7) ++ optcat(5,6)", {c4, c3}, true, true)) bad++;
  // reverse_merge path: numpy.mergemany({categorical}) - plain ++ categorical is not mergeable, so use union route
  std::cout << (bad ? "DEFECT" : "ok") << std::endl;
  return bad ? 1 : 0;
}
