// defect6 (minor): numeric promotion over 3+ arrays is done pairwise left to right, which is not what
// numpy.concatenate does: int8 ++ uint16 ++ float32 -> float64 here (int8,uint16 -> int32; int32,float32
// -> float64) but numpy.result_type(int8, uint16, float32) = float32. Same for complex64 -> complex128.
#include "/tmp/hunt3/MERGE/h.h"
int main() {
  int bad = 0;
  ContentPtr a = numpy<int8_t>({1}), b = numpy<uint16_t>({2}), c = numpy<float>({3.5f}), d = numpy<std::complex<float>>({{1, 2}});
  ContentPtr m1 = a->mergemany({b, c});
  ContentPtr m2 = a->mergemany({b, d});
  std::string t1 = typestr(m1), t2 = typestr(m2);
  std::cout << "int8 ++ uint16 ++ float32   -> " << t1 << " (numpy: float32)" << std::endl;
  std::cout << "int8 ++ uint16 ++ complex64 -> " << t2 << " (numpy: complex64)" << std::endl;
  if (t1 != "float32") bad++;
  if (t2 != "complex64") bad++;
  std::cout << (bad ? "DEFECT" : "ok") << std::endl;
  return bad ? 1 : 0;
}
