// defect8 (minor, type only): two RegularArrays of the SAME size are merged into a ListArray64, so
// "2 * int64" ++ "2 * int64" becomes "var * int64" (numpy.concatenate keeps the inner dimension; the
// property says identical list types merge into one - the same - type). Values are unchanged.
// RegularArray::mergemany unconditionally does toListOffsetArray64(true)->mergemany(others).
#include "/tmp/hunt3/MERGE/h.h"
int main() {
  ContentPtr r1 = regular(numpy<int64_t>({1, 2, 3, 4}), 2), r2 = regular(numpy<int64_t>({5, 6}), 2);
  ContentPtr out = concat({r1, r2});
  std::string t = typestr(out);
  std::cout << "2 * int64 ++ 2 * int64 -> " << t << "  " << out->tojson(false, -1) << std::endl;
  bool ok = (t == "2 * int64") && out->tojson(false, -1) == "[[1,2],[3,4],[5,6]]";
  std::cout << (ok ? "ok" : "DEFECT") << std::endl;
  return ok ? 0 : 1;
}
