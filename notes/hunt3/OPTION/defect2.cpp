// defect2: fillna on an UnmaskedArray does not stop at this option level (as every other option encoding
// does) but hands the call down to its content, so None values of *deeper* levels get replaced as well.
// The result of fill_none(axis=k) therefore depends on how an option level without missing values is
// encoded: UnmaskedArray versus IndexedOptionArray / ByteMaskedArray / BitMaskedArray with nothing masked.
//
//   a = option[var * ?int64] = [[1, None], [None, 4]]      (no outer None)
//   a.fillna(0) as called by ak.fill_none(a, 0, axis=0) must leave the inner None alone:
//       [[1, None], [None, 4]]
//   IndexedOptionArray64, ByteMaskedArray, BitMaskedArray: [[1, None], [None, 4]]   (right)
//   UnmaskedArray:                                          [[1, 0], [0, 4]]        (wrong)
//
// exits 0 when right, 1 when wrong.
#include <cstdint>
#include <iostream>
#include <memory>
#include <string>
#include <vector>

#include "awkward/Content.h"
#include "awkward/Index.h"
#include "awkward/array/BitMaskedArray.h"
#include "awkward/array/ByteMaskedArray.h"
#include "awkward/array/IndexedArray.h"
#include "awkward/array/ListOffsetArray.h"
#include "awkward/array/NumpyArray.h"
#include "awkward/array/RecordArray.h"
#include "awkward/array/UnmaskedArray.h"
#include "awkward/kernel-dispatch.h"
#include "awkward/util.h"

namespace ak = awkward;

static ak::ContentPtr ints(const std::vector<int64_t>& v) {
  std::shared_ptr<int64_t> buf = ak::kernel::malloc<int64_t>(ak::kernel::lib::cpu, (int64_t)(v.size() + 1) * 8);
  for (size_t i = 0; i < v.size(); i++) buf.get()[i] = v[i];
  return std::make_shared<ak::NumpyArray>(ak::Identities::none(), ak::util::Parameters(), buf,
    std::vector<ssize_t>({(ssize_t)v.size()}), std::vector<ssize_t>({8}), 0, 8,
    ak::util::dtype_to_format(ak::util::dtype::int64), ak::util::dtype::int64, ak::kernel::lib::cpu);
}
template <typename T>
static ak::IndexOf<T> idx(const std::vector<int64_t>& v) {
  ak::IndexOf<T> out((int64_t)v.size());
  for (size_t i = 0; i < v.size(); i++) out.setitem_at_nowrap((int64_t)i, (T)v[i]);
  return out;
}

static int failures = 0;
static void check(const std::string& what, const std::string& got, const std::string& expected) {
  bool ok = (got == expected);
  std::cout << (ok ? "ok    " : "FAIL  ") << what << "\n        got      " << got << "\n        expected " << expected << std::endl;
  if (!ok) failures++;
}

int main() {
  ak::IdentitiesPtr none = ak::Identities::none();
  ak::util::Parameters noparams;
  // inner = [[1, None], [None, 4]] : var * ?int64
  ak::ContentPtr inneropt = std::make_shared<ak::IndexedOptionArray64>(
      none, noparams, idx<int64_t>({0, -1, -1, 1}), ints({1, 4}));
  ak::ContentPtr inner = std::make_shared<ak::ListOffsetArray64>(
      none, noparams, idx<int64_t>({0, 2, 4}), inneropt);
  ak::ContentPtr value = ints({0});

  // four encodings of the same outer option level in which nothing is missing
  ak::ContentPtr ioa = std::make_shared<ak::IndexedOptionArray64>(none, noparams, idx<int64_t>({0, 1}), inner);
  ak::ContentPtr bma = std::make_shared<ak::ByteMaskedArray>(none, noparams, idx<int8_t>({1, 1}), inner, true);
  ak::ContentPtr bit = std::make_shared<ak::BitMaskedArray>(none, noparams, idx<uint8_t>({3}), inner, true, 2, true);
  ak::ContentPtr uma = std::make_shared<ak::UnmaskedArray>(none, noparams, inner);

  const std::string expected = "[[1,null],[null,4]]";
  check("all four encodings hold the same value",
        ioa->tojson(false, -1) + bma->tojson(false, -1) + bit->tojson(false, -1) + uma->tojson(false, -1),
        expected + expected + expected + expected);
  check("IndexedOptionArray64::fillna(0)", ioa->fillna(value)->tojson(false, -1), expected);
  check("ByteMaskedArray::fillna(0)", bma->fillna(value)->tojson(false, -1), expected);
  check("BitMaskedArray::fillna(0)", bit->fillna(value)->tojson(false, -1), expected);
  check("UnmaskedArray::fillna(0)", uma->fillna(value)->tojson(false, -1), expected);

  // same thing below a record: {"x": option[?...]} - only the option level that is met first on each
  // branch may be filled
  ak::util::RecordLookupPtr keys = std::make_shared<ak::util::RecordLookup>();
  keys->push_back("x");
  ak::ContentPtr rec_io = std::make_shared<ak::RecordArray>(none, noparams, ak::ContentPtrVec({ioa}), keys, 2);
  ak::ContentPtr rec_um = std::make_shared<ak::RecordArray>(none, noparams, ak::ContentPtrVec({uma}), keys, 2);
  check("RecordArray{x: UnmaskedArray}.fillna(0) == RecordArray{x: IndexedOptionArray64}.fillna(0)",
        rec_um->fillna(value)->tojson(false, -1), rec_io->fillna(value)->tojson(false, -1));

  std::cout << (failures == 0 ? "PASS" : "DEFECT REPRODUCED") << std::endl;
  return failures == 0 ? 0 : 1;
}
