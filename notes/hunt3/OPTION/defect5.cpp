// defect5: a jagged slice with a missing LIST inside (slice = [[[0], None], [None, [0]]]) picks the inner
// lists of the array by their position in the SLICE instead of by the array's own starts.  It is only
// right when the array's list starts coincide with the slice's offsets (a compact, zero-based
// ListOffsetArray).  For an array that was sliced before (offsets[0] != 0) or a ListArray whose lists are
// stored in another order, it silently returns values from the wrong lists, including unreachable ones.
//
//   big = [[[1,2],[3,4]], [[5,6],[7,8]], [[9,10],[11,12]]]
//   a   = big[1:]                      = [[[5,6],[7,8]], [[9,10],[11,12]]]
//   a[[[0], None], [None, [0]]]  must be [[[5], None], [None, [11]]];  the code gives [[[1], None], [None, [7]]]
//
// exits 0 when right, 1 when wrong.
#include <cstdint>
#include <iostream>
#include <memory>
#include <string>
#include <vector>

#include "awkward/Content.h"
#include "awkward/Index.h"
#include "awkward/Slice.h"
#include "awkward/array/IndexedArray.h"
#include "awkward/array/ListArray.h"
#include "awkward/array/ListOffsetArray.h"
#include "awkward/array/NumpyArray.h"
#include "awkward/kernel-dispatch.h"
#include "awkward/util.h"

namespace ak = awkward;

static ak::ContentPtr ints(const std::vector<int64_t>& v) {
  std::shared_ptr<int64_t> buf = ak::kernel::malloc<int64_t>(ak::kernel::lib::cpu, (int64_t)(v.size() + 1) * 8);
  for (size_t i = 0; i < v.size(); i++) buf.get()[i] = v[i];
  return std::make_shared<ak::NumpyArray>(ak::Identities::none(), ak::util::Parameters(), buf,
    std::vector<ssize_t>({(ssize_t)v.size()}), std::vector<ssize_t>({8}), 0, 8,
    ak::util::dtype_to_format(ak::util::dtype::int64), ak::util::dtype::int64, ak::kernel::lib::cpu);
}
static ak::Index64 idx(const std::vector<int64_t>& v) {
  ak::Index64 out((int64_t)v.size());
  for (size_t i = 0; i < v.size(); i++) out.setitem_at_nowrap((int64_t)i, v[i]);
  return out;
}
static ak::ContentPtr lists(const std::vector<int64_t>& offsets, const ak::ContentPtr& content) {
  return std::make_shared<ak::ListOffsetArray64>(ak::Identities::none(), ak::util::Parameters(), idx(offsets), content);
}
static ak::ContentPtr option(const std::vector<int64_t>& index, const ak::ContentPtr& content) {
  return std::make_shared<ak::IndexedOptionArray64>(ak::Identities::none(), ak::util::Parameters(), idx(index), content);
}

static int failures = 0;
static void check(const std::string& what, const std::string& got, const std::string& expected) {
  bool ok = (got == expected);
  std::cout << (ok ? "ok    " : "FAIL  ") << what << "\n        got      " << got << "\n        expected " << expected << std::endl;
  if (!ok) failures++;
}
static std::string apply(const ak::ContentPtr& array, const ak::ContentPtr& slicearray) {
  try {
    ak::Slice sl;
    sl.append(slicearray->asslice());     // what the Python layer does for array[slicearray]
    sl.become_sealed();
    return array->getitem(sl)->tojson(false, -1);
  }
  catch (std::exception& e) {
    return std::string("EXCEPTION ") + std::string(e.what()).substr(0, 90);
  }
}

int main() {
  // slice = [[[0], None], [None, [0]]]
  ak::ContentPtr slice = lists({0, 2, 4}, option({0, -1, -1, 1}, lists({0, 1, 2}, ints({0, 0}))));
  std::cout << "slice = " << slice->tojson(false, -1) << std::endl;

  ak::ContentPtr inner = lists({0, 2, 4, 6, 8, 10, 12}, ints({1, 2, 3, 4, 5, 6, 7, 8, 9, 10, 11, 12}));
  ak::ContentPtr big = lists({0, 2, 4, 6}, inner);

  // control: zero-based compact array
  ak::ContentPtr first2 = big->getitem_range(0, 2);
  check("big[:2][slice]   (offsets start at 0)", apply(first2, slice), "[[[1],null],[null,[7]]]");

  // the same kind of array after big[1:]: offsets = [2, 4, 6]
  ak::ContentPtr a = big->getitem_range(1, 3);
  std::cout << "a = big[1:] = " << a->tojson(false, -1) << std::endl;
  check("big[1:][slice]   (offsets start at 2)", apply(a, slice), "[[[5],null],[null,[11]]]");

  // a ListArray holding [[[5,6],[7,8]], [[1,2],[3,4]]] with starts = [2, 0]
  ak::ContentPtr la = std::make_shared<ak::ListArray64>(ak::Identities::none(), ak::util::Parameters(),
                                                         idx({2, 0}), idx({4, 2}), inner);
  std::cout << "la = " << la->tojson(false, -1) << std::endl;
  check("ListArray(starts=[2,0])[slice]", apply(la, slice), "[[[5],null],[null,[3]]]");

  // the same slice without the None entries is right on both
  ak::ContentPtr slice_nomissing = lists({0, 2, 4}, lists({0, 1, 1, 1, 2}, ints({0, 0})));   // [[[0], []], [[], [0]]]
  check("control: big[1:][ [[[0],[]],[[],[0]]] ]", apply(a, slice_nomissing), "[[[5],[]],[[],[11]]]");

  // a slice row with more entries than the array row has lists must be refused (it is, when the slice
  // has no None: "jagged slice inner length differs from array inner length"); with a None in it, the
  // extra entry silently reads the next (here: unreachable) list of the content
  ak::ContentPtr one = lists({0, 2}, inner);                                  // [[[1,2],[3,4]]], content has 6 lists
  ak::ContentPtr slice3 = lists({0, 3}, option({0, -1, 1}, lists({0, 1, 2}, ints({0, 0}))));   // [[[0], None, [0]]]
  std::string r = apply(one, slice3);
  check("[[[1,2],[3,4]]][ [[[0], None, [0]]] ]  (3 slice entries for 2 lists) raises",
        r.substr(0, 9), "EXCEPTION");
  std::cout << "        full result: " << r << std::endl;

  std::cout << (failures == 0 ? "PASS" : "DEFECT REPRODUCED") << std::endl;
  return failures == 0 ? 0 : 1;
}
