// defect4: slicing with an index array that contains None (a[:, [0, None]]) raises "index out of range"
// when the sliced dimension belongs to ZERO lists and the list items are option-type; with non-option
// items, or with at least one list, the same slice works.
//
//   a = [[5, None]]            type 1 * var * ?int64
//   a[:,  [0, None]]  == [[5, None]]                     (right)
//   a[1:, [0, None]]  must be []  (type 0 * 2 * ?int64)  -> ValueError: in IndexedOptionArray64 attempting
//                                                           to get 0, index out of range
//   b = [[5, 6]]               type 1 * var * int64
//   b[1:, [0, None]]  == []                              (right)
//
// Same for an array that is empty to begin with (length 0, type var * ?int64), in every option encoding.
//
// exits 0 when right, 1 when wrong.
#include <cstdint>
#include <iostream>
#include <memory>
#include <string>
#include <vector>

#include "awkward/Content.h"
#include "awkward/Index.h"
#include "awkward/Slice.h"
#include "awkward/array/ByteMaskedArray.h"
#include "awkward/array/IndexedArray.h"
#include "awkward/array/ListOffsetArray.h"
#include "awkward/array/NumpyArray.h"
#include "awkward/array/UnmaskedArray.h"
#include "awkward/kernel-dispatch.h"
#include "awkward/util.h"

namespace ak = awkward;

static ak::ContentPtr ints(const std::vector<int64_t>& v) {
  std::shared_ptr<int64_t> buf = ak::kernel::malloc<int64_t>(ak::kernel::lib::cpu, (int64_t)(v.size() + 1) * 8);
  for (size_t i = 0; i < v.size(); i++) buf.get()[i] = v[i];
  return std::make_shared<ak::NumpyArray>(ak::Identities::none(), ak::util::Parameters(), buf,
    std::vector<ssize_t>({(ssize_t)v.size()}), std::vector<ssize_t>({8}), 0, 8,
    ak::util::dtype_to_format(ak::util::dtype::int64), ak::util::dtype::int64, ak::kernel::lib::cpu);
}
template <typename T>
static ak::IndexOf<T> idx(const std::vector<int64_t>& v) {
  ak::IndexOf<T> out((int64_t)v.size());
  for (size_t i = 0; i < v.size(); i++) out.setitem_at_nowrap((int64_t)i, (T)v[i]);
  return out;
}
static ak::ContentPtr lists(const std::vector<int64_t>& offsets, const ak::ContentPtr& content) {
  return std::make_shared<ak::ListOffsetArray64>(ak::Identities::none(), ak::util::Parameters(), idx<int64_t>(offsets), content);
}
static ak::ContentPtr option(const std::vector<int64_t>& index, const ak::ContentPtr& content) {
  return std::make_shared<ak::IndexedOptionArray64>(ak::Identities::none(), ak::util::Parameters(), idx<int64_t>(index), content);
}

static int failures = 0;
static void check(const std::string& what, const std::string& got, const std::string& expected) {
  bool ok = (got == expected);
  std::cout << (ok ? "ok    " : "FAIL  ") << what << "\n        got      " << got << "\n        expected " << expected << std::endl;
  if (!ok) failures++;
}
// array[start:, [0, None]]
static std::string apply(const ak::ContentPtr& array, int64_t start) {
  try {
    ak::ContentPtr slicearray = option({0, -1}, ints({0}));   // [0, None]
    ak::Slice sl;
    sl.append(ak::SliceRange(start, ak::Slice::none(), ak::Slice::none()));
    sl.append(slicearray->asslice());
    sl.become_sealed();
    ak::ContentPtr out = array->getitem(sl);
    return out->tojson(false, -1);
  }
  catch (std::exception& e) {
    return std::string("EXCEPTION ") + std::string(e.what()).substr(0, 80);
  }
}

int main() {
  ak::IdentitiesPtr none = ak::Identities::none();
  ak::util::Parameters noparams;
  ak::ContentPtr a = lists({0, 2}, option({0, -1}, ints({5})));   // [[5, None]]
  ak::ContentPtr b = lists({0, 2}, ints({5, 6}));                 // [[5, 6]]
  check("a = [[5,None]];  a[:, [0,None]]", apply(a, 0), "[[5,null]]");
  check("b = [[5,6]];     b[1:, [0,None]]   (no lists left, items not option-type)", apply(b, 1), "[]");
  check("a = [[5,None]];  a[1:, [0,None]]   (no lists left, items option-type)", apply(a, 1), "[]");

  // arrays that are empty from the start, one per option encoding of the items
  ak::ContentPtr e_io = lists({0}, option({}, ints({})));
  ak::ContentPtr e_bm = lists({0}, std::make_shared<ak::ByteMaskedArray>(none, noparams, idx<int8_t>({}), ints({}), true));
  ak::ContentPtr e_um = lists({0}, std::make_shared<ak::UnmaskedArray>(none, noparams, ints({})));
  ak::ContentPtr e_plain = lists({0}, ints({}));
  check("empty var * int64   [:, [0,None]]", apply(e_plain, 0), "[]");
  check("empty var * ?int64  [:, [0,None]]  (IndexedOptionArray64)", apply(e_io, 0), "[]");
  check("empty var * ?int64  [:, [0,None]]  (ByteMaskedArray)", apply(e_bm, 0), "[]");
  check("empty var * ?int64  [:, [0,None]]  (UnmaskedArray)", apply(e_um, 0), "[]");

  std::cout << (failures == 0 ? "PASS" : "DEFECT REPRODUCED") << std::endl;
  return failures == 0 ? 0 : 1;
}
