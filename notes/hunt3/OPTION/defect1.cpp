// defect1: a negative axis in rpad / rpad_and_clip (ak.pad_none) is resolved relative to the node that
// resolves it, not to the whole array, as soon as the resolution happens below depth 0, i.e. whenever a
// RecordArray (or a UnionArray with branches) sits below at least one list.
//
//   array = [[{"x": [1, 2]}], [{"x": [3]}]]        (ListOffsetArray64 -> RecordArray{x} -> ListOffsetArray64 -> int64)
//   pad_none(array, 3, axis=-1)  must equal  pad_none(array, 3, axis=2)
//        = [[{"x": [1, 2, None]}], [{"x": [3, None, None]}]]
//
// exits 0 when right, 1 when wrong.
#include <cstdint>
#include <cstring>
#include <iostream>
#include <memory>
#include <string>
#include <vector>

#include "awkward/Content.h"
#include "awkward/Index.h"
#include "awkward/array/ListOffsetArray.h"
#include "awkward/array/NumpyArray.h"
#include "awkward/array/RecordArray.h"
#include "awkward/array/UnionArray.h"
#include "awkward/kernel-dispatch.h"
#include "awkward/util.h"

namespace ak = awkward;

static ak::ContentPtr ints(const std::vector<int64_t>& v) {
  std::shared_ptr<int64_t> buf = ak::kernel::malloc<int64_t>(ak::kernel::lib::cpu, (int64_t)(v.size() + 1) * 8);
  for (size_t i = 0; i < v.size(); i++) buf.get()[i] = v[i];
  return std::make_shared<ak::NumpyArray>(ak::Identities::none(), ak::util::Parameters(), buf,
    std::vector<ssize_t>({(ssize_t)v.size()}), std::vector<ssize_t>({8}), 0, 8,
    ak::util::dtype_to_format(ak::util::dtype::int64), ak::util::dtype::int64, ak::kernel::lib::cpu);
}
static ak::Index64 idx(const std::vector<int64_t>& v) {
  ak::Index64 out((int64_t)v.size());
  for (size_t i = 0; i < v.size(); i++) out.setitem_at_nowrap((int64_t)i, v[i]);
  return out;
}
static ak::ContentPtr lists(const std::vector<int64_t>& offsets, const ak::ContentPtr& content) {
  return std::make_shared<ak::ListOffsetArray64>(ak::Identities::none(), ak::util::Parameters(), idx(offsets), content);
}

static int failures = 0;
static void check(const std::string& what, const std::string& got, const std::string& expected) {
  bool ok = (got == expected);
  std::cout << (ok ? "ok    " : "FAIL  ") << what << "\n        got      " << got << "\n        expected " << expected << std::endl;
  if (!ok) failures++;
}
static std::string run(const ak::ContentPtr& a, bool clip, int64_t target, int64_t axis) {
  try {
    ak::ContentPtr out = clip ? a->rpad_and_clip(target, axis, 0) : a->rpad(target, axis, 0);
    std::string v = out->validityerror("layout");
    return out->tojson(false, -1) + (v.empty() ? "" : "  INVALID: " + v.substr(0, 80));
  }
  catch (std::exception& e) {
    return std::string("EXCEPTION ") + std::string(e.what()).substr(0, 70);
  }
}

int main() {
  // [[{"x": [1, 2]}], [{"x": [3]}]]
  ak::ContentPtr x = lists({0, 2, 3}, ints({1, 2, 3}));
  ak::util::RecordLookupPtr keys = std::make_shared<ak::util::RecordLookup>();
  keys->push_back("x");
  ak::ContentPtr rec = std::make_shared<ak::RecordArray>(ak::Identities::none(), ak::util::Parameters(),
                                                         ak::ContentPtrVec({x}), keys, 2);
  ak::ContentPtr array = lists({0, 1, 2}, rec);
  std::cout << "array = " << array->tojson(false, -1) << std::endl;

  // the same request with the positive axis is handled correctly and is the reference
  check("rpad(3, axis=2)", run(array, false, 3, 2), "[[{\"x\":[1,2,null]}],[{\"x\":[3,null,null]}]]");
  check("rpad(3, axis=-1)", run(array, false, 3, -1), run(array, false, 3, 2));
  check("rpad_and_clip(1, axis=-1)", run(array, true, 1, -1), run(array, true, 1, 2));

  // two fields of different depth: axis=-1 means the innermost list of each field
  // [[{"x": [1, 2], "y": [[1, 2]]}], [{"x": [3], "y": [[3]]}]]
  ak::ContentPtr y = lists({0, 1, 2}, lists({0, 2, 3}, ints({1, 2, 3})));
  ak::util::RecordLookupPtr keys2 = std::make_shared<ak::util::RecordLookup>();
  keys2->push_back("x");
  keys2->push_back("y");
  ak::ContentPtr rec2 = std::make_shared<ak::RecordArray>(ak::Identities::none(), ak::util::Parameters(),
                                                          ak::ContentPtrVec({x, y}), keys2, 2);
  ak::ContentPtr array2 = lists({0, 1, 2}, rec2);
  std::cout << "array2 = " << array2->tojson(false, -1) << std::endl;
  check("rpad(3, axis=-1) on fields of depth 3 and 4", run(array2, false, 3, -1),
        "[[{\"x\":[1,2,null],\"y\":[[1,2,null]]}],[{\"x\":[3,null,null],\"y\":[[3,null,null]]}]]");

  // the same through a union instead of a record: [[ [1,2] , [[1,2]] ]] -like branches below a list
  // union contents: x (depth 2) and y (depth 3); outer list [[x0, y0], [x1, y1]]
  ak::Index8 tags(4);
  ak::Index64 uidx(4);
  const int8_t tg[4] = {0, 1, 0, 1};
  const int64_t ui[4] = {0, 0, 1, 1};
  for (int64_t i = 0; i < 4; i++) { tags.setitem_at_nowrap(i, tg[i]); uidx.setitem_at_nowrap(i, ui[i]); }
  ak::ContentPtr un = std::make_shared<ak::UnionArray8_64>(ak::Identities::none(), ak::util::Parameters(),
                                                           tags, uidx, ak::ContentPtrVec({x, y}));
  ak::ContentPtr array3 = lists({0, 2, 4}, un);
  std::cout << "array3 = " << array3->tojson(false, -1) << std::endl;
  check("rpad_and_clip(3, axis=-1) through a union below a list", run(array3, true, 3, -1),
        "[[[1,2,null],[[1,2,null]]],[[3,null,null],[[3,null,null]]]]");

  std::cout << (failures == 0 ? "PASS" : "DEFECT REPRODUCED") << std::endl;
  return failures == 0 ? 0 : 1;
}
