// defect3: a jagged slice that contains None, applied to an option-type array of lists (any encoding:
// IndexedOptionArray, ByteMaskedArray, BitMaskedArray), returns wrong values (or throws a misleading
// "offsets extend beyond its content") for the rows AFTER a missing row of the array, when the slice's
// row for that missing row is not empty.
//
//   array = [[1, 2], None, [3]]
//   slice = [[1, None], [None], [0]]
//   array[slice] must be [[2, None], None, [3]];  the code gives [[2, None], None, [None]].
//
// With slice = [[1, None], [], [0]] (empty row for the missing list) the result is right, and with a
// slice without None ([[1], [0], [0]]) it is right too, so the slice row of a missing list is accepted.
//
// exits 0 when right, 1 when wrong.
#include <cstdint>
#include <iostream>
#include <memory>
#include <string>
#include <vector>

#include "awkward/Content.h"
#include "awkward/Index.h"
#include "awkward/Slice.h"
#include "awkward/array/BitMaskedArray.h"
#include "awkward/array/ByteMaskedArray.h"
#include "awkward/array/IndexedArray.h"
#include "awkward/array/ListOffsetArray.h"
#include "awkward/array/NumpyArray.h"
#include "awkward/kernel-dispatch.h"
#include "awkward/util.h"

namespace ak = awkward;

static ak::ContentPtr ints(const std::vector<int64_t>& v) {
  std::shared_ptr<int64_t> buf = ak::kernel::malloc<int64_t>(ak::kernel::lib::cpu, (int64_t)(v.size() + 1) * 8);
  for (size_t i = 0; i < v.size(); i++) buf.get()[i] = v[i];
  return std::make_shared<ak::NumpyArray>(ak::Identities::none(), ak::util::Parameters(), buf,
    std::vector<ssize_t>({(ssize_t)v.size()}), std::vector<ssize_t>({8}), 0, 8,
    ak::util::dtype_to_format(ak::util::dtype::int64), ak::util::dtype::int64, ak::kernel::lib::cpu);
}
template <typename T>
static ak::IndexOf<T> idx(const std::vector<int64_t>& v) {
  ak::IndexOf<T> out((int64_t)v.size());
  for (size_t i = 0; i < v.size(); i++) out.setitem_at_nowrap((int64_t)i, (T)v[i]);
  return out;
}
static ak::ContentPtr lists(const std::vector<int64_t>& offsets, const ak::ContentPtr& content) {
  return std::make_shared<ak::ListOffsetArray64>(ak::Identities::none(), ak::util::Parameters(), idx<int64_t>(offsets), content);
}
static ak::ContentPtr option(const std::vector<int64_t>& index, const ak::ContentPtr& content) {
  return std::make_shared<ak::IndexedOptionArray64>(ak::Identities::none(), ak::util::Parameters(), idx<int64_t>(index), content);
}

static int failures = 0;
static void check(const std::string& what, const std::string& got, const std::string& expected) {
  bool ok = (got == expected);
  std::cout << (ok ? "ok    " : "FAIL  ") << what << "\n        got      " << got << "\n        expected " << expected << std::endl;
  if (!ok) failures++;
}
static std::string apply(const ak::ContentPtr& array, const ak::ContentPtr& slicearray) {
  try {
    ak::Slice sl;
    sl.append(slicearray->asslice());     // what the Python layer does for array[slicearray]
    sl.become_sealed();
    return array->getitem(sl)->tojson(false, -1);
  }
  catch (std::exception& e) {
    return std::string("EXCEPTION ") + std::string(e.what()).substr(0, 90);
  }
}

int main() {
  ak::IdentitiesPtr none = ak::Identities::none();
  ak::util::Parameters noparams;
  // array = [[1, 2], None, [3]] in three encodings
  ak::ContentPtr ioa = option({0, -1, 1}, lists({0, 2, 3}, ints({1, 2, 3})));
  ak::ContentPtr bma = std::make_shared<ak::ByteMaskedArray>(
      none, noparams, idx<int8_t>({1, 0, 1}), lists({0, 2, 2, 3}, ints({1, 2, 3})), true);
  ak::ContentPtr bit = std::make_shared<ak::BitMaskedArray>(
      none, noparams, idx<uint8_t>({5}), lists({0, 2, 2, 3}, ints({1, 2, 3})), true, 3, true);
  // the same lists without a missing one, for comparison: [[1, 2], [], [3]]
  ak::ContentPtr plain = lists({0, 2, 2, 3}, ints({1, 2, 3}));

  // slices
  ak::ContentPtr s_none_row  = lists({0, 2, 3, 4}, option({0, -1, -1, 1}, ints({1, 0})));   // [[1, None], [None], [0]]
  ak::ContentPtr s_empty_row = lists({0, 2, 2, 3}, option({0, -1, 1}, ints({1, 0})));        // [[1, None], [], [0]]
  ak::ContentPtr s_nomissing = lists({0, 1, 2, 3}, ints({1, 0, 0}));                          // [[1], [0], [0]]
  ak::ContentPtr s_front     = lists({0, 1, 3, 4}, option({-1, 0, -1, 1}, ints({1, 0})));    // [[None], [1, None], [0]]

  std::cout << "array = " << ioa->tojson(false, -1) << std::endl;
  check("controls: slice without None; slice with an empty row for the missing list",
        apply(ioa, s_nomissing) + " " + apply(ioa, s_empty_row), "[[2],null,[3]] [[2,null],null,[3]]");
  check("control: same slice on [[1,2],[],[3]] (no missing list)", apply(plain, s_none_row), "[[2,null],[null],[3]]");

  check("IndexedOptionArray64 [[1,2],None,[3]] [ [[1,None],[None],[0]] ]", apply(ioa, s_none_row), "[[2,null],null,[3]]");
  check("ByteMaskedArray      [[1,2],None,[3]] [ [[1,None],[None],[0]] ]", apply(bma, s_none_row), "[[2,null],null,[3]]");
  check("BitMaskedArray       [[1,2],None,[3]] [ [[1,None],[None],[0]] ]", apply(bit, s_none_row), "[[2,null],null,[3]]");

  // missing list in front: array2 = [None, [1, 2], [3]], slice [[None], [1, None], [0]]
  ak::ContentPtr ioa2 = option({-1, 0, 1}, lists({0, 2, 3}, ints({1, 2, 3})));
  check("[None,[1,2],[3]] [ [[None],[1,None],[0]] ]", apply(ioa2, s_front), "[null,[2,null],[3]]");

  std::cout << (failures == 0 ? "PASS" : "DEFECT REPRODUCED") << std::endl;
  return failures == 0 ? 0 : 1;
}
