// declaration-only stand-in for dlpack.h (v0.3 API as used by awkward-1.0)
#ifndef VERIF_STUB_DLPACK_H
#define VERIF_STUB_DLPACK_H
#include <cstdint>
#include <cstddef>
extern "C" {
typedef enum { kDLCPU = 1, kDLGPU = 2, kDLCPUPinned = 3, kDLOpenCL = 4, kDLVulkan = 7, kDLMetal = 8, kDLVPI = 9, kDLROCM = 10, kDLExtDev = 12 } DLDeviceType;
typedef struct { DLDeviceType device_type; int device_id; } DLContext;
typedef enum { kDLInt = 0U, kDLUInt = 1U, kDLFloat = 2U, kDLBfloat = 4U } DLDataTypeCode;
typedef struct { uint8_t code; uint8_t bits; uint16_t lanes; } DLDataType;
typedef struct { void* data; DLContext ctx; int ndim; DLDataType dtype; int64_t* shape; int64_t* strides; uint64_t byte_offset; } DLTensor;
typedef struct DLManagedTensor { DLTensor dl_tensor; void* manager_ctx; void (*deleter)(struct DLManagedTensor* self); } DLManagedTensor;
}
#endif
