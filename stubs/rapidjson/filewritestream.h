#ifndef RJ_STUB_FWS_H
#define RJ_STUB_FWS_H
#include "rapidjson/document.h"
namespace rapidjson { class FileWriteStream { public: typedef char Ch; FileWriteStream(std::FILE* fp, char* buffer, size_t bufferSize); void Put(char); void Flush(); }; }
#endif
