#ifndef RJ_STUB_FRS_H
#define RJ_STUB_FRS_H
#include "rapidjson/document.h"
namespace rapidjson { class FileReadStream { public: typedef char Ch; FileReadStream(std::FILE* fp, char* buffer, size_t bufferSize); char Peek() const; char Take(); size_t Tell() const; }; }
#endif
