#ifndef RJ_STUB_READER_H
#define RJ_STUB_READER_H
#include "rapidjson/document.h"
namespace rapidjson {
  template <typename Encoding = UTF8<>, typename Derived = void> struct BaseReaderHandler { typedef typename Encoding::Ch Ch;
    bool Default(); bool Null(); bool Bool(bool); bool Int(int); bool Uint(unsigned); bool Int64(int64_t); bool Uint64(uint64_t); bool Double(double);
    bool RawNumber(const Ch*, SizeType, bool); bool String(const Ch*, SizeType, bool); bool StartObject(); bool Key(const Ch*, SizeType, bool); bool EndObject(SizeType); bool StartArray(); bool EndArray(SizeType); };
  struct ParseResult { ParseErrorCode Code() const; size_t Offset() const; bool IsError() const; operator bool() const; };
  class Reader { public: Reader();
    template <unsigned parseFlags, typename IS, typename H> ParseResult Parse(IS& is, H& handler);
    template <typename IS, typename H> ParseResult Parse(IS& is, H& handler);
    bool HasParseError() const; ParseErrorCode GetParseErrorCode() const; size_t GetErrorOffset() const; };
}
#endif
