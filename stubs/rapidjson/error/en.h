#ifndef RJ_STUB_EN_H
#define RJ_STUB_EN_H
#include "rapidjson/document.h"
namespace rapidjson { const char* GetParseError_En(ParseErrorCode); }
#endif
