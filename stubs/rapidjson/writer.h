#ifndef RJ_STUB_WRITER_H
#define RJ_STUB_WRITER_H
#include "rapidjson/document.h"
namespace rapidjson {
  template <typename OS> class Writer { public:
    explicit Writer(OS& os); Writer();
    bool Null(); bool Bool(bool); bool Int(int); bool Uint(unsigned); bool Int64(int64_t); bool Uint64(uint64_t); bool Double(double);
    bool String(const char*, SizeType length, bool copy = false); bool String(const char*); bool Key(const char*); bool Key(const char*, SizeType, bool copy=false);
    bool RawValue(const char*, size_t, int); bool StartObject(); bool EndObject(SizeType n = 0); bool StartArray(); bool EndArray(SizeType n = 0);
    void SetMaxDecimalPlaces(int); void Flush(); bool IsComplete() const; };
}
#endif
