#ifndef RJ_STUB_SB_H
#define RJ_STUB_SB_H
#include "rapidjson/document.h"
namespace rapidjson {
  class StringBuffer { public: typedef char Ch; StringBuffer(); const char* GetString() const; size_t GetSize() const; size_t GetLength() const; void Clear(); };
  struct StringStream { typedef char Ch; StringStream(const char* src); char Peek() const; char Take(); size_t Tell() const; };
}
#endif
