#ifndef RJ_STUB_PW_H
#define RJ_STUB_PW_H
#include "rapidjson/writer.h"
namespace rapidjson { template <typename OS> class PrettyWriter : public Writer<OS> { public: explicit PrettyWriter(OS& os); PrettyWriter& SetIndent(char, unsigned); }; }
#endif
