// ANALYSIS-ONLY STUB of the rapidjson API subset used by awkward-1.0 (declarations only).
#ifndef RJ_STUB_DOCUMENT_H
#define RJ_STUB_DOCUMENT_H
#include <cstddef>
#include <cstdint>
#include <cstdio>
namespace rapidjson {
  typedef unsigned SizeType;
  enum ParseFlag { kParseNoFlags = 0, kParseStopWhenDoneFlag = 8, kParseNanAndInfFlag = 256 };
  enum ParseErrorCode { kParseErrorNone = 0, kParseErrorDocumentEmpty = 1 };
  template <typename CharType = char> struct UTF8 { typedef CharType Ch; };
  struct CrtAllocator {};
  template <typename E = UTF8<>, typename A = CrtAllocator> class GenericValue;
  typedef GenericValue<> Value;
  template <typename E, typename A> struct GenericMember { GenericValue<E, A> name; GenericValue<E, A> value; };
  template <typename E, typename A> class GenericObject {
  public:
    GenericMember<E, A>* begin() const; GenericMember<E, A>* end() const;
    GenericMember<E, A>* MemberBegin() const; GenericMember<E, A>* MemberEnd() const;
    SizeType MemberCount() const;
  };
  template <typename E, typename A> class GenericArray {
  public:
    GenericValue<E, A>* begin() const; GenericValue<E, A>* end() const; SizeType Size() const;
    GenericValue<E, A>& operator[](SizeType) const;
  };
  template <typename E, typename A> class GenericValue {
  public:
    typedef GenericMember<E, A>* MemberIterator; typedef const GenericMember<E, A>* ConstMemberIterator;
    typedef GenericValue* ValueIterator; typedef const GenericValue* ConstValueIterator;
    GenericValue(); GenericValue(const GenericValue&);
    bool IsNull() const; bool IsBool() const; bool IsTrue() const; bool IsFalse() const; bool IsObject() const; bool IsArray() const;
    bool IsNumber() const; bool IsInt() const; bool IsUint() const; bool IsInt64() const; bool IsUint64() const;
    bool IsDouble() const; bool IsString() const; bool IsFloat() const; bool IsLosslessDouble() const;
    bool GetBool() const; int GetInt() const; unsigned GetUint() const; int64_t GetInt64() const; uint64_t GetUint64() const;
    double GetDouble() const; const char* GetString() const; SizeType GetStringLength() const;
    bool HasMember(const char*) const;
    GenericValue& operator[](const char*); const GenericValue& operator[](const char*) const;
    GenericValue& operator[](SizeType); const GenericValue& operator[](SizeType) const;
    GenericValue& operator[](int); const GenericValue& operator[](int) const;
    SizeType Size() const; SizeType MemberCount() const;
    GenericObject<E, A> GetObject() const; GenericArray<E, A> GetArray() const;
    ConstMemberIterator MemberBegin() const; ConstMemberIterator MemberEnd() const; ConstMemberIterator FindMember(const char*) const;
    ConstValueIterator Begin() const; ConstValueIterator End() const;
    template <typename Handler> bool Accept(Handler& handler) const;
    bool operator==(const GenericValue&) const; bool operator!=(const GenericValue&) const;
  };
  template <typename E = UTF8<>, typename A = CrtAllocator> class GenericDocument : public GenericValue<E, A> {
  public:
    template <unsigned parseFlags> GenericDocument& Parse(const char* str);
    GenericDocument& Parse(const char* str);
    bool HasParseError() const; ParseErrorCode GetParseError() const; size_t GetErrorOffset() const;
  };
  typedef GenericDocument<> Document;
}
#endif
