#ifndef VERIF_STUB_PYBIND11_NUMPY_H
#define VERIF_STUB_PYBIND11_NUMPY_H
#include "pybind11.h"
namespace pybind11 {
  class dtype : public object {
  public:
    using object::object;
    dtype(); dtype(const object&); explicit dtype(const buffer_info& info); explicit dtype(const std::string& format); dtype(const char* format); dtype(list names, list formats, list offsets, ssize_t itemsize);
    static dtype from_args(object args);
    template <class T> static dtype of();
    ssize_t itemsize() const; bool has_fields() const; char kind() const; bool equal(object other) const;
  };
  class array : public buffer {
  public:
    using buffer::buffer;
    enum { c_style = 1, f_style = 2, forcecast = 16 };
    array(); array(const object&);
    template <class S1, class S2> array(const pybind11::dtype& dt, S1 shape, S2 strides, const void* ptr = nullptr, handle base = handle());
    template <class S1> array(const pybind11::dtype& dt, S1 shape, const void* ptr = nullptr, handle base = handle());
    explicit array(const buffer_info& info, handle base = handle());
    pybind11::dtype dtype() const; ssize_t size() const; ssize_t itemsize() const; ssize_t nbytes() const; ssize_t ndim() const; object base() const;
    const ssize_t* shape() const; ssize_t shape(ssize_t dim) const; const ssize_t* strides() const; ssize_t strides(ssize_t dim) const;
    int flags() const; bool writeable() const; bool owndata() const;
    const void* data() const; void* mutable_data();
    array squeeze(); void resize(std::vector<ssize_t> new_shape, bool refcheck = true);
    static array ensure(handle h, int ExtraFlags = 0);
  };
  template <class T, int ExtraFlags = array::forcecast>
  class array_t : public array {
  public:
    array_t(); array_t(const object&); array_t(handle h, bool is_borrowed);
    explicit array_t(const buffer_info& info, handle base = handle());
    template <class S1, class S2> array_t(S1 shape, S2 strides, const T* ptr = nullptr, handle base = handle());
    explicit array_t(ssize_t count, const T* ptr = nullptr, handle base = handle());
    explicit array_t(size_t count, const T* ptr = nullptr, handle base = handle());
    explicit array_t(std::vector<ssize_t> shape, const T* ptr = nullptr, handle base = handle());
    const T* data() const; T* mutable_data();
    static array_t ensure(handle h);
  };
}
#endif
