#include "pybind11.h"
