// Declaration-only stand-in for pybind11, so that clang -fsyntax-only can parse src/python/*.cpp in a sandbox without the real headers.
// It models only what awkward-1.0's binding layer uses; every function is declared, none is defined. Types of casts are kept faithful
// (obj.cast<T>() returns T) because the width/role rules look at them.
#ifndef VERIF_STUB_PYBIND11_H
#define VERIF_STUB_PYBIND11_H
#include <string>
#include <vector>
#include <map>
#include <memory>
#include <stdexcept>
#include <cstdint>
#include <cstddef>
#include <utility>
#include <initializer_list>
#include <functional>

struct _object; typedef _object PyObject;
typedef ssize_t Py_ssize_t;
struct Py_buffer { void* buf; Py_ssize_t len; Py_ssize_t itemsize; int readonly; int ndim; char* format; Py_ssize_t* shape; Py_ssize_t* strides; };
extern "C" { void Py_INCREF(void*); void Py_DECREF(void*); void Py_XINCREF(void*); void Py_XDECREF(void*); PyObject* PyUnicode_DecodeUTF8(const char* s, Py_ssize_t size, const char* errors);
  int PyObject_CheckBuffer(PyObject* o); void PyErr_Clear(); int PyCapsule_IsValid(PyObject* capsule, const char* name); void* PyCapsule_GetPointer(PyObject* capsule, const char* name); }
#define PYBIND11_MODULE(name, variable) void pybind11_init_##name(pybind11::module& variable)
#define PYBIND11_OVERLOAD_PURE(...)
#define PYBIND11_OVERLOAD(...)
#define PYBIND11_DECLARE_HOLDER_TYPE(...)

namespace pybind11 {
  typedef ssize_t ssize_t_;
  using ssize_t = ::ssize_t;
  using size_t = ::size_t;
  class object; class handle; class str; class tuple; class list; class dict; class iterator; class module; class dtype; class bytes; class int_; class float_; class bool_; class none; class slice; class capsule; class type;
  namespace detail {
    struct item_accessor_base {};
    template <class P> class accessor;
    struct obj_attr; struct str_attr; struct generic_item; struct sequence_item; struct list_item; struct tuple_item;
    struct kwargs_proxy {}; struct args_proxy { kwargs_proxy operator*() const; };
    class item_accessor;
  }
  struct arg_v;
  struct arg {
    constexpr explicit arg(const char* name = nullptr) : name(name) {}
    template <class T> arg_v operator=(T&& value) const;
    arg& noconvert(bool flag = true);
    arg& none(bool flag = true);
    const char* name;
  };
  struct arg_v : arg { template <class T> arg_v(const arg& base, T&& x); };
  template <class T> arg_v arg::operator=(T&& value) const { return arg_v(*this, value); }

  enum class return_value_policy : uint8_t { automatic = 0, automatic_reference, take_ownership, copy, move, reference, reference_internal };
  struct keep_alive_base {}; template <size_t A, size_t B> struct keep_alive {};
  struct buffer_protocol {}; struct dynamic_attr {}; struct multiple_inheritance {}; struct module_local {}; struct is_operator {};
  struct doc { doc(const char*); };
  template <class... A> struct call_guard {};

  class handle {
  public:
    handle(); handle(PyObject* p);
    PyObject* ptr() const; PyObject*& ptr();
    const handle& inc_ref() const; const handle& dec_ref() const;
    template <class T> T cast() const;
    explicit operator bool() const;
    bool is(const handle& o) const; bool is_none() const;
    bool operator==(const handle& o) const; bool operator!=(const handle& o) const;
    detail::item_accessor attr(const char* key) const; detail::item_accessor attr(handle key) const;
    detail::item_accessor operator[](const char* key) const; detail::item_accessor operator[](handle key) const; detail::item_accessor operator[](ssize_t i) const; detail::item_accessor operator[](size_t i) const; detail::item_accessor operator[](int i) const;
    template <class... A> object operator()(A&&... a) const;
    iterator begin() const; iterator end() const;
    bool contains(const handle&) const; bool contains(const char*) const;
    handle get_type() const;
    str str_() const;
    object operator-() const;
    detail::args_proxy operator*() const;
    object doc() const;
    int ref_count() const;
    bool check() const;
  };
  class object : public handle {
  public:
    object(); object(const object& o); object(object&& o); object(handle h, bool is_borrowed);
    struct borrowed_t {}; struct stolen_t {};
    object(handle h, borrowed_t); object(handle h, stolen_t);
    ~object();
    handle release();
    object& operator=(const object& other); object& operator=(object&& other);
    template <class T> T cast() const&; 
  };
  namespace detail { class item_accessor : public object { public: item_accessor(); template <class T> void operator=(T&& value) { } template <class T> void operator=(T&& value) const { } }; }
  template <class T> T reinterpret_borrow(handle h);
  template <class T> T reinterpret_steal(handle h);

  class iterator : public object { public: iterator(); iterator& operator++(); iterator operator++(int); handle operator*() const; bool operator==(const iterator&) const; bool operator!=(const iterator&) const; const handle* operator->() const; };
  class iterable : public object { public: using object::object; iterable(const object&); iterable(); };
  class type : public object { public: using object::object; type(const handle&); static type of(handle h); };
  class str : public object { public: using object::object; str(); str(const char* c); str(const char* c, size_t n); str(const std::string& s); explicit str(handle h); str(const object&); operator std::string() const; template <class... A> str format(A&&... a) const; };
  class bytes : public object { public: using object::object; bytes(); bytes(const char* c); bytes(const char* c, size_t n); bytes(const std::string& s); bytes(const object&); operator std::string() const; };
  class none : public object { public: none(); };
  class ellipsis : public object { public: ellipsis(); };
  class bool_ : public object { public: bool_(); bool_(bool v); bool_(const object&); operator bool() const; };
  class int_ : public object { public: int_(); template <class T> int_(T v); int_(const object&); template <class T> operator T() const; };
  class float_ : public object { public: float_(); float_(double v); float_(const object&); operator double() const; };
  class weakref : public object { public: weakref(); explicit weakref(handle obj, handle callback = handle()); };
  class slice : public object { public: slice(); slice(ssize_t start, ssize_t stop, ssize_t step); slice(const object&); bool compute(size_t length, size_t* start, size_t* stop, size_t* step, size_t* slicelength) const; bool compute(ssize_t length, ssize_t* start, ssize_t* stop, ssize_t* step, ssize_t* slicelength) const; };
  class capsule : public object { public: capsule(); capsule(const void* value, void (*destructor)(void*)); capsule(const void* value, void (*destructor)(PyObject*)); capsule(const void* value, const char* name = nullptr, void (*destructor)(PyObject*) = nullptr); capsule(const object&); template <class T> operator T*() const; const char* name() const; };
  class tuple : public object { public: using object::object; tuple(); explicit tuple(size_t size); tuple(const object&); size_t size() const; bool empty() const; };
  class list : public object { public: using object::object; list(); explicit list(size_t size); list(const object&); size_t size() const; bool empty() const; template <class T> void append(T&& val) const; template <class T> void insert(size_t index, T&& val) const; };
  class dict : public object { public: using object::object; dict(); dict(const object&); template <class... A> explicit dict(A&&... a); size_t size() const; bool empty() const; void clear() const; template <class T> bool contains(T&& key) const; struct dict_iterator { std::pair<handle, handle> operator*() const; dict_iterator& operator++(); bool operator!=(const dict_iterator&) const; bool operator==(const dict_iterator&) const; const std::pair<handle, handle>* operator->() const; }; dict_iterator begin() const; dict_iterator end() const; };
  class sequence : public object { public: using object::object; sequence(); sequence(const object&); size_t size() const; };
  class set : public object { public: set(); set(const object&); size_t size() const; template <class T> bool add(T&& val) const; };
  class function : public object { public: using object::object; function(); function(const object&); };
  class args : public tuple { public: using tuple::tuple; };
  class kwargs : public dict { public: using dict::dict; };
  class buffer_info;
  class buffer : public object { public: using object::object; buffer(); buffer(const object&); buffer_info request(bool writable = false) const; };
  class memoryview : public object { public: memoryview(); explicit memoryview(const buffer_info& info); memoryview(const object&); };

  class buffer_info {
  public:
    void* ptr = nullptr; ssize_t itemsize = 0; ssize_t size = 0; std::string format; ssize_t ndim = 0; std::vector<ssize_t> shape; std::vector<ssize_t> strides; bool readonly = false;
    buffer_info();
    buffer_info(void* ptr, ssize_t itemsize, const std::string& format, ssize_t ndim, std::vector<ssize_t> shape_in, std::vector<ssize_t> strides_in, bool readonly = false);
    template <class S1, class S2> buffer_info(void* ptr, ssize_t itemsize, const std::string& format, ssize_t ndim, S1&& shape_in, S2&& strides_in, bool readonly = false);
    buffer_info(void* ptr, ssize_t itemsize, const std::string& format, ssize_t size, bool readonly = false);
  };
  template <class T, class SFINAE = void> struct format_descriptor { static std::string format(); static constexpr const char c = '?'; static constexpr const char value[2] = {'?', '\0'}; };

  class cast_error : public std::runtime_error { public: cast_error(); explicit cast_error(const char* s); explicit cast_error(const std::string& s); };
  class error_already_set : public std::runtime_error { public: error_already_set(); const char* what() const noexcept override; void restore(); void discard_as_unraisable(object err_context); bool matches(handle exc) const; const object& type() const; const object& value() const; const object& trace() const; };
  class builtin_exception : public std::runtime_error { public: using std::runtime_error::runtime_error; virtual void set_error() const = 0; };
  class stop_iteration : public std::runtime_error { public: stop_iteration(); explicit stop_iteration(const char* s); explicit stop_iteration(const std::string& s); };
  class index_error : public std::runtime_error { public: index_error(); explicit index_error(const char* s); explicit index_error(const std::string& s); };
  class key_error : public std::runtime_error { public: key_error(); explicit key_error(const char* s); explicit key_error(const std::string& s); };
  class value_error : public std::runtime_error { public: value_error(); explicit value_error(const char* s); explicit value_error(const std::string& s); };
  class type_error : public std::runtime_error { public: type_error(); explicit type_error(const char* s); explicit type_error(const std::string& s); };

  class gil_scoped_acquire { public: gil_scoped_acquire(); ~gil_scoped_acquire(); };
  class gil_scoped_release { public: gil_scoped_release(); ~gil_scoped_release(); };

  template <class T> T cast(const handle& h);
  template <class T> object cast(T&& value, return_value_policy policy = return_value_policy::automatic_reference, handle parent = handle());
  template <class T> bool isinstance(handle obj);
  bool isinstance(handle obj, handle type);
  bool hasattr(handle obj, handle name); bool hasattr(handle obj, const char* name);
  void delattr(handle obj, handle name); void delattr(handle obj, const char* name);
  object getattr(handle obj, handle name); object getattr(handle obj, const char* name); object getattr(handle obj, handle name, handle default_); object getattr(handle obj, const char* name, handle default_);
  void setattr(handle obj, handle name, handle value); void setattr(handle obj, const char* name, handle value);
  size_t len(handle h); size_t len_hint(handle h);
  str repr(handle h);
  iterator iter(handle obj);
  ssize_t hash(handle obj);
  template <class... A> tuple make_tuple(A&&... a);
  template <class... A> void print(A&&... a);
  template <class It, class... E> iterator make_iterator(It first, It last, E&&... extra);
  template <class T, class... E> iterator make_iterator(T& value, E&&... extra);
  dict globals();
  template <class... A> object eval(A&&...); template <class... A> void exec(A&&...);

  template <class... A> struct init_t {};
  template <class... A> init_t<A...> init();
  template <class F> init_t<F> init(F&& f) { return init_t<F>(); }
  template <class G, class S> struct pickle_t {};
  template <class G, class S> pickle_t<G, S> pickle(G&& g, S&& s) { return pickle_t<G, S>(); }
  namespace detail { template <class... A> struct overload_cast_impl { template <class R, class... X> constexpr auto operator()(R (*pf)(A...)) const -> decltype(pf); }; }
  template <class... A> struct overload_cast_t {};

  class module : public object {
  public:
    using object::object;
    module(); module(const char* name, const char* doc = nullptr); module(const object&);
    template <class F, class... E> module& def(const char* name, F&& f, const E&... extra) { return *this; }
    module def_submodule(const char* name, const char* doc = nullptr);
    static module import(const char* name);
    void reload();
    template <class T> void add_object(const char* name, T&& obj, bool overwrite = false) {}
  };
  typedef module module_;

  class generic_type : public object { public: using object::object; generic_type(); };
  template <class T, class... O>
  class class_ : public generic_type {
  public:
    typedef T type;
    template <class... E> class_(handle scope, const char* name, const E&... extra) {}
    class_(const object& o) {}
    template <class U, class... P> class_(const class_<U, P...>& o) {}
    template <class F, class... E> class_& def(const char* name, F&& f, const E&... extra) { return *this; }
    template <class... A, class... E> class_& def(const init_t<A...>& i, const E&... extra) { return *this; }
    template <class G, class S, class... E> class_& def(const pickle_t<G, S>& p, const E&... extra) { return *this; }
    template <class F, class... E> class_& def_static(const char* name, F&& f, const E&... extra) { return *this; }
    template <class F> class_& def_buffer(F&& f) { return *this; }
    template <class C, class D, class... E> class_& def_readwrite(const char* name, D C::*pm, const E&... extra) { return *this; }
    template <class C, class D, class... E> class_& def_readonly(const char* name, const D C::*pm, const E&... extra) { return *this; }
    template <class D, class... E> class_& def_readonly_static(const char* name, const D* pm, const E&... extra) { return *this; }
    template <class G, class... E> class_& def_property_readonly(const char* name, const G& fget, const E&... extra) { return *this; }
    template <class G, class... E> class_& def_property_readonly_static(const char* name, const G& fget, const E&... extra) { return *this; }
    template <class G, class S, class... E> class_& def_property(const char* name, const G& fget, const S& fset, const E&... extra) { return *this; }
    template <class G, class S, class... E> class_& def_property_static(const char* name, const G& fget, const S& fset, const E&... extra) { return *this; }
  };
  template <class T>
  class enum_ : public class_<T> {
  public:
    template <class... E> enum_(const handle& scope, const char* name, const E&... extra) : class_<T>(scope, name) {}
    enum_& value(const char* name, T value, const char* doc = nullptr);
    enum_& export_values();
  };
  template <class T> class exception : public object { public: exception(handle scope, const char* name, handle base = handle()); };
  template <class T> exception<T>& register_exception(handle scope, const char* name, handle base = handle());
  template <class F> void register_exception_translator(F&& f) {}

  // accessor-like assignment: obj.attr("x") = value and obj["k"] = value are modelled by returning object (assignment compiles, meaning is lost)
  namespace literals { arg operator"" _a(const char* name, size_t); }
}
#endif
