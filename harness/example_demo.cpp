// Example demo for /verif/harness: drives libawkward (awkward-1.0, v1.4.0)
// from plain C++, without Python/pybind11.
//
//   /verif/harness/run_demo.sh /repo /tmp/awk-harness-build /verif/harness/example_demo.cpp
//
// (a) builds [[1.1,2.2,3.3],[],[4.4,5.5]] as a ListOffsetArray64 over a
//     NumpyArray of float64, directly through the C++ constructors;
// (b) prints compact JSON (tojson(false, 1)) of the array, of
//     getitem_range(1, 3), of num(1, 0) and of the array that
//     ak::FromJsonString("[[1,2],[3]]", ...) builds, plus a few extras that
//     exercise the rapidjson shim (Form::fromjson, parameter_equals, pretty
//     printing, concatenated JSON documents);
// (c) compares every output with the expected text and exits 0 iff all match.

#include <cstdint>
#include <cstring>
#include <iostream>
#include <memory>
#include <stdexcept>
#include <string>
#include <vector>

#include "awkward/Content.h"
#include "awkward/Identities.h"
#include "awkward/Index.h"
#include "awkward/array/ListOffsetArray.h"
#include "awkward/array/NumpyArray.h"
#include "awkward/builder/ArrayBuilderOptions.h"
#include "awkward/io/json.h"
#include "awkward/kernel-dispatch.h"
#include "awkward/util.h"

namespace ak = awkward;

static int failures = 0;

static void show(const std::string& label, const std::string& got, const std::string& expected) {
  const bool ok = (got == expected);
  std::cout << (ok ? "ok    " : "FAIL  ") << label << " = " << got << std::endl;
  if (!ok) {
    std::cout << "      expected: " << expected << std::endl;
    failures++;
  }
}

int main(int, char**) {
  try {
    // ---- (a) [[1.1,2.2,3.3],[],[4.4,5.5]] through the C++ constructors ----
    const std::vector<double> values = {1.1, 2.2, 3.3, 4.4, 5.5};
    const int64_t n = (int64_t)values.size();

    // kernel::malloc gives a shared_ptr whose deleter is awkward_free
    std::shared_ptr<double> buffer =
        ak::kernel::malloc<double>(ak::kernel::lib::cpu, n * (int64_t)sizeof(double));
    std::memcpy(buffer.get(), values.data(), values.size() * sizeof(double));

    ak::ContentPtr content = std::make_shared<ak::NumpyArray>(
        ak::Identities::none(),
        ak::util::Parameters(),
        buffer,                                   // const std::shared_ptr<void>& ptr
        std::vector<ssize_t>({(ssize_t)n}),       // shape
        std::vector<ssize_t>({(ssize_t)sizeof(double)}),  // strides (bytes)
        0,                                        // byteoffset
        (ssize_t)sizeof(double),                  // itemsize
        ak::util::dtype_to_format(ak::util::dtype::float64),
        ak::util::dtype::float64,
        ak::kernel::lib::cpu);

    ak::Index64 offsets(4);
    const int64_t offsetvalues[4] = {0, 3, 3, 5};
    for (int64_t i = 0; i < 4; i++) {
      offsets.setitem_at_nowrap(i, offsetvalues[i]);
    }

    ak::ContentPtr array = std::make_shared<ak::ListOffsetArray64>(
        ak::Identities::none(), ak::util::Parameters(), offsets, content);

    // ---- (b) JSON of the array and of a few operations on it ----
    show("array.tojson(false, 1)",
         array->tojson(false, 1),
         "[[1.1,2.2,3.3],[],[4.4,5.5]]");

    show("array.getitem_range(1, 3)",
         array->getitem_range(1, 3)->tojson(false, 1),
         "[[],[4.4,5.5]]");

    show("array.num(1, 0)",
         array->num(1, 0)->tojson(false, 1),
         "[3,0,2]");

    ak::ContentPtr parsed =
        ak::FromJsonString("[[1,2],[3]]", ak::ArrayBuilderOptions(1024, 2.0),
                           nullptr, nullptr, nullptr);
    show("FromJsonString(\"[[1,2],[3]]\")",
         parsed->tojson(false, 1),
         "[[1,2],[3]]");

    // ---- extras: more of the rapidjson shim through libawkward ----
    show("array.tojson(false, -1) (full precision)",
         array->tojson(false, -1),
         "[[1.1,2.2,3.3],[],[4.4,5.5]]");

    show("array.getitem_at(2).tojson(true, 1) (PrettyWriter)",
         array->getitem_at(2)->tojson(true, 1),
         "[\n    4.4,\n    5.5\n]");

    show("array.form(true).tojson(false, false)",
         array->form(true)->tojson(false, false),
         "{\"class\":\"ListOffsetArray64\",\"offsets\":\"i64\",\"content\":\"float64\"}");

    ak::FormPtr form = ak::Form::fromjson(
        "{\"class\": \"ListOffsetArray64\", \"offsets\": \"i64\", \"content\": "
        "{\"class\": \"NumpyArray\", \"primitive\": \"float64\", "
        "\"parameters\": {\"units\": \"cm\", \"limits\": [0, 1.5, null]}}}");
    // Note: before the repair of copyjson() in src/libawkward/io/json.cpp (it wrote doubles with
    // Int64((int64_t)GetDouble())) "limits": [0, 1.5, null] came back as [0,1,null].
    show("Form::fromjson(...).tojson(false, false)",
         form->tojson(false, false),
         "{\"class\":\"ListOffsetArray64\",\"offsets\":\"i64\",\"content\":"
         "{\"class\":\"NumpyArray\",\"itemsize\":8,\"format\":\"d\","
         "\"primitive\":\"float64\",\"parameters\":{\"limits\":[0,1.5,null],\"units\":\"cm\"}}}");

    ak::util::Parameters params;
    params["__array__"] = "\"string\"";
    params["meta"] = "{\"a\": 1, \"b\": [1, 2]}";
    show("parameter_equals: same string",
         ak::util::parameter_equals(params, "__array__", "\"string\"") ? "true" : "false", "true");
    show("parameter_equals: member order and 1 vs 1.0 do not matter",
         ak::util::parameter_equals(params, "meta", "{\"b\":[1,2.0],\"a\":1}") ? "true" : "false", "true");
    show("parameter_equals: different value",
         ak::util::parameter_equals(params, "meta", "{\"b\":[1,3],\"a\":1}") ? "true" : "false", "false");
    show("parameter_equals: missing key equals null",
         ak::util::parameter_equals(params, "nope", "null") ? "true" : "false", "true");
    show("util::quote", ak::util::quote("say \"hi\"\n"), "\"say \\\"hi\\\"\\n\"");

    // several concatenated JSON documents -> one array of documents
    ak::ContentPtr multi =
        ak::FromJsonString("{\"x\": 1, \"y\": [1.5]} {\"x\": 2, \"y\": []}\n[\"two\", null]\n",
                           ak::ArrayBuilderOptions(1024, 2.0), nullptr, nullptr, nullptr);
    show("FromJsonString(3 concatenated documents)",
         multi->tojson(false, -1),
         "[{\"x\":1,\"y\":[1.5]},{\"x\":2,\"y\":[]},[\"two\",null]]");

    // user-defined NaN/Infinity strings, both directions
    ak::ContentPtr nonfinite =
        ak::FromJsonString("[1.5, \"nan\", \"inf\", \"-inf\"]",
                           ak::ArrayBuilderOptions(1024, 2.0), "nan", "inf", "-inf");
    show("non-finite values via strings",
         nonfinite->tojson(false, -1, "NaN!", "+oo", "-oo"),
         "[1.5,\"NaN!\",\"+oo\",\"-oo\"]");

    bool threw = false;
    try {
      ak::FromJsonString("[1, 2", ak::ArrayBuilderOptions(1024, 2.0), nullptr, nullptr, nullptr);
    }
    catch (std::invalid_argument& err) {
      threw = (std::string(err.what()).find("incomplete JSON object at the end of the stream") == 0);
    }
    show("FromJsonString(\"[1, 2\") throws 'incomplete JSON object'", threw ? "true" : "false", "true");
  }
  catch (std::exception& err) {
    std::cout << "FAIL  unexpected exception: " << err.what() << std::endl;
    return 1;
  }

  // ---- (c) ----
  if (failures != 0) {
    std::cout << failures << " check(s) failed" << std::endl;
    return 1;
  }
  std::cout << "all checks passed" << std::endl;
  return 0;
}
