#!/usr/bin/env bash
# Build (if needed) libawkward-static.a for <repo-dir> in <build-dir>, compile
# and link one C++ demo program against it, run it, and pass through its exit
# status.
#
#   usage: run_demo.sh <repo-dir> <build-dir> <demo.cpp> [demo arguments...]
#
# Everything the harness itself prints goes to stderr; stdout belongs to the
# demo.  Exit status: the demo's own status, or 125 if the library or the demo
# could not be built (so a non-125 status always comes from the demo; a demo
# killed by a signal gives the usual 128+signal).
#
# Environment knobs: the ones of build.sh (CXX, OPT, EXTRA_CXXFLAGS, JOBS,
# PYTHON, VERBOSE) plus
#   DEMO_CXXFLAGS=...  extra flags for compiling/linking the demo only
#   DEMO_LDLIBS=...    extra libraries for the demo (after -ldl -lpthread)
#   DEMO_WRAPPER=...   command prefix to run the demo under (e.g. "valgrind -q", "gdb --args")
#   QUIET=1            do not show build.sh / compiler progress unless it fails
set -uo pipefail

if [ $# -lt 3 ]; then
  sed -n '2,18p' "$0" | sed 's/^# \{0,1\}//' >&2
  exit 125
fi

HARNESS="$(cd "$(dirname "${BASH_SOURCE[0]}")" && pwd -P)"
REPO_ARG="$1"; BUILD_ARG="$2"; DEMO_ARG="$3"; shift 3

[ -f "$DEMO_ARG" ] || { echo "run_demo.sh: demo source '$DEMO_ARG' not found" >&2; exit 125; }
DEMO="$(cd "$(dirname "$DEMO_ARG")" && pwd -P)/$(basename "$DEMO_ARG")"

# ---- 1. the library (incremental; a no-op takes about a second) ----
if [ "${QUIET:-0}" = 1 ]; then
  LOG="$(mktemp /tmp/awk-harness-log.XXXXXX)"
  if ! "$HARNESS/build.sh" "$REPO_ARG" "$BUILD_ARG" > "$LOG" 2>&1; then
    cat "$LOG" >&2; rm -f "$LOG"
    echo "run_demo.sh: building the library failed" >&2
    exit 125
  fi
  rm -f "$LOG"
else
  if ! "$HARNESS/build.sh" "$REPO_ARG" "$BUILD_ARG" >&2; then
    echo "run_demo.sh: building the library failed" >&2
    exit 125
  fi
fi

REPO="$(cd "$REPO_ARG" && pwd -P)"
BUILD="$(cd "$BUILD_ARG" && pwd -P)"
LIB="$BUILD/libawkward-static.a"

# same compiler and flags as the library (recorded by build.sh in the Makefile)
CXX="$(sed -n 's/^CXX := //p' "$BUILD/Makefile")"
CXXFLAGS="$(sed -n 's/^CXXFLAGS := //p' "$BUILD/Makefile")"

# ---- 2. the demo: <build-dir>/demos/<name>-<hash of its path> ----
name="$(basename "$DEMO")"; name="${name%.*}"
tag="$(printf '%s' "$DEMO" | cksum | cut -d' ' -f1)"
mkdir -p "$BUILD/demos"
EXE="$BUILD/demos/$name-$tag"

# Rebuilt when the demo source, any header it includes, the library or the
# flags changed (make + -MMD dependency file).
if ! make -s -f - -C "$BUILD/demos" "$EXE" >&2 <<EOF
$EXE: $DEMO $LIB $BUILD/flags.stamp
	@echo "run_demo.sh: compiling and linking $DEMO" >&2
	$CXX $CXXFLAGS ${DEMO_CXXFLAGS:-} -MMD -MP -MF $EXE.d -MT $EXE $DEMO $LIB -ldl -lpthread ${DEMO_LDLIBS:-} -o $EXE
-include $EXE.d
EOF
then
  echo "run_demo.sh: compiling/linking the demo failed" >&2
  exit 125
fi

# ---- 3. run it ----
echo "run_demo.sh: running $EXE $*" >&2
# shellcheck disable=SC2086
exec ${DEMO_WRAPPER:-} "$EXE" "$@"
