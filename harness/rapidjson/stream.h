// Harness shim of rapidjson/stream.h (see rapidjson.h).
#ifndef RAPIDJSON_STREAM_H_
#define RAPIDJSON_STREAM_H_

#include "rapidjson.h"

RAPIDJSON_NAMESPACE_BEGIN

//! Read-only stream over a NUL-terminated string.  Peek() returns '\0' at the
//! end and Take() does not advance past it.
template <typename Encoding>
struct GenericStringStream {
  typedef typename Encoding::Ch Ch;

  GenericStringStream(const Ch* src) : src_(src), head_(src) {}

  Ch Peek() const { return *src_; }
  Ch Take() {
    // The real library does `return *src_++;` unconditionally; its parser
    // never takes the terminator.  Guard anyway.
    Ch c = *src_;
    if (c != '\0') ++src_;
    return c;
  }
  size_t Tell() const { return static_cast<size_t>(src_ - head_); }

  Ch* PutBegin() { RAPIDJSON_ASSERT(false); return 0; }
  void Put(Ch) { RAPIDJSON_ASSERT(false); }
  void Flush() { RAPIDJSON_ASSERT(false); }
  size_t PutEnd(Ch*) { RAPIDJSON_ASSERT(false); return 0; }

  const Ch* src_;   //!< Current read position.
  const Ch* head_;  //!< Original head of the string.
};

typedef GenericStringStream<UTF8<> > StringStream;

//! Put N copies of a character to a stream.
template <typename Stream, typename Ch>
inline void PutN(Stream& stream, Ch c, size_t n) {
  for (size_t i = 0; i < n; i++) stream.Put(c);
}

RAPIDJSON_NAMESPACE_END

#endif // RAPIDJSON_STREAM_H_
