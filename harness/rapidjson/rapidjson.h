// Minimal functional re-implementation of the subset of the RapidJSON API that
// awkward-1.0 (src/libawkward) uses.  NOT the real RapidJSON.  See
// /verif/harness/README.md for what is faithful and what is not.
//
// Basic types shared by every header.
#ifndef RAPIDJSON_RAPIDJSON_H_
#define RAPIDJSON_RAPIDJSON_H_

#include <cassert>
#include <cstddef>
#include <cstdint>
#include <cstdio>
#include <cstdlib>
#include <cstring>
#include <string>

#define RAPIDJSON_MAJOR_VERSION 1
#define RAPIDJSON_MINOR_VERSION 1
#define RAPIDJSON_PATCH_VERSION 0
#define RAPIDJSON_VERSION_STRING "1.1.0-awkward-harness-shim"
// Lets client code detect that this is the harness shim.
#define RAPIDJSON_AWKWARD_HARNESS_SHIM 1

#ifndef RAPIDJSON_NAMESPACE
#define RAPIDJSON_NAMESPACE rapidjson
#endif
#ifndef RAPIDJSON_NAMESPACE_BEGIN
#define RAPIDJSON_NAMESPACE_BEGIN namespace RAPIDJSON_NAMESPACE {
#endif
#ifndef RAPIDJSON_NAMESPACE_END
#define RAPIDJSON_NAMESPACE_END }
#endif

// Same default as the real library: assert() (so it vanishes with -DNDEBUG).
// The shim is written so that, with assertions disabled, misuse returns a
// harmless default instead of reading invalid memory.
#ifndef RAPIDJSON_ASSERT
#define RAPIDJSON_ASSERT(x) assert(x)
#endif

#define RAPIDJSON_LIKELY(x) (x)
#define RAPIDJSON_UNLIKELY(x) (x)

RAPIDJSON_NAMESPACE_BEGIN

typedef unsigned SizeType;

//! Type of JSON value (same numbering as the real library).
enum Type {
  kNullType = 0,
  kFalseType = 1,
  kTrueType = 2,
  kObjectType = 3,
  kArrayType = 4,
  kStringType = 5,
  kNumberType = 6
};

//! Only UTF-8 with `char` is functional in this shim.
template <typename CharType = char>
struct UTF8 {
  typedef CharType Ch;
};

//! Placeholder; the shim allocates with new/std::vector/std::string.
class CrtAllocator {
public:
  static const bool kNeedFree = true;
  void* Malloc(size_t size) { return size ? std::malloc(size) : 0; }
  void* Realloc(void* p, size_t, size_t newSize) {
    if (newSize == 0) { std::free(p); return 0; }
    return std::realloc(p, newSize);
  }
  static void Free(void* p) { std::free(p); }
};

namespace internal {
  template <typename A, typename B> struct IsSame { static const bool Value = false; };
  template <typename A> struct IsSame<A, A> { static const bool Value = true; };
  template <bool C, typename T1, typename T2> struct SelectIfImpl { typedef T1 Type; };
  template <typename T1, typename T2> struct SelectIfImpl<false, T1, T2> { typedef T2 Type; };
  template <typename C, typename T1, typename T2>
  struct SelectIf : SelectIfImpl<C::Value, T1, T2> {};

  template <typename Ch>
  inline SizeType StrLen(const Ch* s) {
    RAPIDJSON_ASSERT(s != 0);
    const Ch* p = s;
    while (*p) ++p;
    return SizeType(p - s);
  }
}

RAPIDJSON_NAMESPACE_END

#endif // RAPIDJSON_RAPIDJSON_H_
