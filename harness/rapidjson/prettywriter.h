// Harness shim of rapidjson/prettywriter.h (see rapidjson.h).  Produces the
// same layout as rapidjson::PrettyWriter: 4-space indent by default, one
// element/member per line, `"key": value`, empty containers as [] and {}.
#ifndef RAPIDJSON_PRETTYWRITER_H_
#define RAPIDJSON_PRETTYWRITER_H_

#include "writer.h"

RAPIDJSON_NAMESPACE_BEGIN

enum PrettyFormatOptions {
  kFormatDefault = 0,         //!< Default pretty formatting.
  kFormatSingleLineArray = 1  //!< Format arrays on a single line.
};

template <typename OutputStream, typename SourceEncoding = UTF8<>, typename TargetEncoding = UTF8<>,
          typename StackAllocator = CrtAllocator, unsigned writeFlags = kWriteDefaultFlags>
class PrettyWriter : public Writer<OutputStream, SourceEncoding, TargetEncoding, StackAllocator, writeFlags> {
public:
  typedef Writer<OutputStream, SourceEncoding, TargetEncoding, StackAllocator, writeFlags> Base;
  typedef typename Base::Ch Ch;

  explicit PrettyWriter(OutputStream& os, StackAllocator* allocator = 0, size_t levelDepth = Base::kDefaultLevelDepth)
      : Base(os, allocator, levelDepth), indentChar_(' '), indentCharCount_(4), formatOptions_(kFormatDefault) {}

  explicit PrettyWriter(StackAllocator* allocator = 0, size_t levelDepth = Base::kDefaultLevelDepth)
      : Base(allocator, levelDepth), indentChar_(' '), indentCharCount_(4), formatOptions_(kFormatDefault) {}

  //! \param indentChar       one of ' ', '\t', '\n', '\r'
  //! \param indentCharCount  number of indent characters per level
  PrettyWriter& SetIndent(Ch indentChar, unsigned indentCharCount) {
    RAPIDJSON_ASSERT(indentChar == ' ' || indentChar == '\t' || indentChar == '\n' || indentChar == '\r');
    indentChar_ = indentChar;
    indentCharCount_ = indentCharCount;
    return *this;
  }

  PrettyWriter& SetFormatOptions(PrettyFormatOptions options) {
    formatOptions_ = options;
    return *this;
  }

  bool Null() { PrettyPrefix(kNullType); return Base::EndValue(Base::WriteNull()); }
  bool Bool(bool b) { PrettyPrefix(b ? kTrueType : kFalseType); return Base::EndValue(Base::WriteBool(b)); }
  bool Int(int i) { PrettyPrefix(kNumberType); return Base::EndValue(Base::WriteInt(i)); }
  bool Uint(unsigned u) { PrettyPrefix(kNumberType); return Base::EndValue(Base::WriteUint(u)); }
  bool Int64(int64_t i64) { PrettyPrefix(kNumberType); return Base::EndValue(Base::WriteInt64(i64)); }
  bool Uint64(uint64_t u64) { PrettyPrefix(kNumberType); return Base::EndValue(Base::WriteUint64(u64)); }
  bool Double(double d) { PrettyPrefix(kNumberType); return Base::EndValue(Base::WriteDouble(d)); }

  bool RawNumber(const Ch* str, SizeType length, bool = false) {
    RAPIDJSON_ASSERT(str != 0);
    PrettyPrefix(kNumberType);
    return Base::EndValue(Base::WriteRawValue(str, length));
  }

  bool String(const Ch* str, SizeType length, bool = false) {
    RAPIDJSON_ASSERT(str != 0);
    PrettyPrefix(kStringType);
    return Base::EndValue(Base::WriteString(str, length));
  }

  bool String(const std::basic_string<Ch>& str) { return String(str.data(), SizeType(str.size())); }

  bool StartObject() {
    PrettyPrefix(kObjectType);
    Base::level_stack_.push_back(typename Base::Level(false));
    return Base::WriteStartObject();
  }

  bool Key(const Ch* str, SizeType length, bool copy = false) { return String(str, length, copy); }
  bool Key(const std::basic_string<Ch>& str) { return Key(str.data(), SizeType(str.size())); }

  bool EndObject(SizeType = 0) {
    RAPIDJSON_ASSERT(!Base::level_stack_.empty());
    RAPIDJSON_ASSERT(!Base::level_stack_.back().inArray);
    RAPIDJSON_ASSERT(0 == Base::level_stack_.back().valueCount % 2);
    bool empty = true;
    if (!Base::level_stack_.empty()) {
      empty = Base::level_stack_.back().valueCount == 0;
      Base::level_stack_.pop_back();
    }
    if (!empty) {
      Base::os_->Put('\n');
      WriteIndent();
    }
    bool ret = Base::EndValue(Base::WriteEndObject());
    (void)ret;
    RAPIDJSON_ASSERT(ret == true);
    if (Base::level_stack_.empty())  // end of json text
      Base::Flush();
    return true;
  }

  bool StartArray() {
    PrettyPrefix(kArrayType);
    Base::level_stack_.push_back(typename Base::Level(true));
    return Base::WriteStartArray();
  }

  bool EndArray(SizeType = 0) {
    RAPIDJSON_ASSERT(!Base::level_stack_.empty());
    RAPIDJSON_ASSERT(Base::level_stack_.back().inArray);
    bool empty = true;
    if (!Base::level_stack_.empty()) {
      empty = Base::level_stack_.back().valueCount == 0;
      Base::level_stack_.pop_back();
    }
    if (!empty && !(formatOptions_ & kFormatSingleLineArray)) {
      Base::os_->Put('\n');
      WriteIndent();
    }
    bool ret = Base::EndValue(Base::WriteEndArray());
    (void)ret;
    RAPIDJSON_ASSERT(ret == true);
    if (Base::level_stack_.empty())  // end of json text
      Base::Flush();
    return true;
  }

  //! Simpler but slower overloads.
  bool String(const Ch* const& str) { return String(str, internal::StrLen(str)); }
  bool Key(const Ch* const& str) { return Key(str, internal::StrLen(str)); }

  bool RawValue(const Ch* json, size_t length, Type type) {
    RAPIDJSON_ASSERT(json != 0);
    PrettyPrefix(type);
    return Base::EndValue(Base::WriteRawValue(json, length));
  }

protected:
  void PrettyPrefix(Type type) {
    (void)type;
    if (!Base::level_stack_.empty()) {  // this value is not at root
      typename Base::Level* level = &Base::level_stack_.back();

      if (level->inArray) {
        if (level->valueCount > 0) {
          Base::os_->Put(',');  // add comma if it is not the first element in array
          if (formatOptions_ & kFormatSingleLineArray) Base::os_->Put(' ');
        }
        if (!(formatOptions_ & kFormatSingleLineArray)) {
          Base::os_->Put('\n');
          WriteIndent();
        }
      }
      else {  // in object
        if (level->valueCount > 0) {
          if (level->valueCount % 2 == 0) {
            Base::os_->Put(',');
            Base::os_->Put('\n');
          }
          else {
            Base::os_->Put(':');
            Base::os_->Put(' ');
          }
        }
        else {
          Base::os_->Put('\n');
        }
        if (level->valueCount % 2 == 0) WriteIndent();
      }
      if (!level->inArray && level->valueCount % 2 == 0)
        RAPIDJSON_ASSERT(type == kStringType);  // if it's in object, then even number should be a name
      level->valueCount++;
    }
    else {
      RAPIDJSON_ASSERT(!Base::hasRoot_);  // Should only have one and only one root.
      Base::hasRoot_ = true;
    }
  }

  void WriteIndent() {
    size_t count = Base::level_stack_.size() * indentCharCount_;
    PutN(*Base::os_, static_cast<typename OutputStream::Ch>(indentChar_), count);
  }

  Ch indentChar_;
  unsigned indentCharCount_;
  PrettyFormatOptions formatOptions_;

private:
  // Prohibit copy constructor & assignment operator.
  PrettyWriter(const PrettyWriter&);
  PrettyWriter& operator=(const PrettyWriter&);
};

RAPIDJSON_NAMESPACE_END

#endif // RAPIDJSON_PRETTYWRITER_H_
