// Harness shim of rapidjson/document.h (see rapidjson.h): a read-only DOM
// (GenericValue / GenericDocument) built by the shim's own SAX reader.
//
// Supported: parsing, all Is*/Get* queries, member/element access and
// iteration, HasMember/FindMember, GetObject/GetArray views (usable in
// range-for), Accept(handler), operator== / != with RapidJSON semantics.
// Not supported: the allocator-based mutation API (AddMember, PushBack,
// SetString(..., allocator), ...), in-situ parsing, non-UTF-8 encodings.
#ifndef RAPIDJSON_DOCUMENT_H_
#define RAPIDJSON_DOCUMENT_H_

#include <limits>
#include <string>
#include <utility>
#include <vector>

#include "rapidjson.h"
#include "reader.h"

#ifdef GetObject
// see the real rapidjson: <windows.h> defines GetObject as a macro
#undef GetObject
#endif

RAPIDJSON_NAMESPACE_BEGIN

template <typename Encoding = UTF8<>, typename Allocator = CrtAllocator>
class GenericValue;

template <typename Encoding = UTF8<>, typename Allocator = CrtAllocator,
          typename StackAllocator = CrtAllocator>
class GenericDocument;

//! Name-value pair in a JSON object.
template <typename Encoding, typename Allocator>
struct GenericMember {
  GenericValue<Encoding, Allocator> name;   //!< always a string
  GenericValue<Encoding, Allocator> value;
};

//! Read-only view of an array value; supports range-for.
template <typename ValueT>
class GenericArray {
public:
  typedef ValueT ValueType;
  typedef const ValueT* ValueIterator;
  typedef const ValueT* ConstValueIterator;

  explicit GenericArray(const ValueT& value) : value_(value) {}

  SizeType Size() const { return value_.Size(); }
  SizeType Capacity() const { return value_.Size(); }
  bool Empty() const { return value_.Empty(); }
  const ValueT& operator[](SizeType index) const { return value_[index]; }
  ValueIterator Begin() const { return value_.Begin(); }
  ValueIterator End() const { return value_.End(); }
  ValueIterator begin() const { return value_.Begin(); }
  ValueIterator end() const { return value_.End(); }

private:
  const ValueT& value_;
};

//! Read-only view of an object value; supports range-for.
template <typename ValueT>
class GenericObject {
public:
  typedef ValueT ValueType;
  typedef typename ValueT::ConstMemberIterator MemberIterator;
  typedef typename ValueT::ConstMemberIterator ConstMemberIterator;
  typedef typename ValueT::Ch Ch;

  explicit GenericObject(const ValueT& value) : value_(value) {}

  SizeType MemberCount() const { return value_.MemberCount(); }
  bool ObjectEmpty() const { return value_.ObjectEmpty(); }
  template <typename T> const ValueT& operator[](T* name) const { return value_[name]; }
  const ValueT& operator[](const std::basic_string<Ch>& name) const { return value_[name]; }
  MemberIterator MemberBegin() const { return value_.MemberBegin(); }
  MemberIterator MemberEnd() const { return value_.MemberEnd(); }
  bool HasMember(const Ch* name) const { return value_.HasMember(name); }
  bool HasMember(const std::basic_string<Ch>& name) const { return value_.HasMember(name); }
  MemberIterator FindMember(const Ch* name) const { return value_.FindMember(name); }
  MemberIterator FindMember(const std::basic_string<Ch>& name) const { return value_.FindMember(name); }
  MemberIterator begin() const { return value_.MemberBegin(); }
  MemberIterator end() const { return value_.MemberEnd(); }

private:
  const ValueT& value_;
};

//! A JSON value.
template <typename Encoding, typename Allocator>
class GenericValue {
public:
  typedef GenericMember<Encoding, Allocator> Member;
  typedef Encoding EncodingType;
  typedef Allocator AllocatorType;
  typedef typename Encoding::Ch Ch;
  typedef Member* MemberIterator;
  typedef const Member* ConstMemberIterator;
  typedef GenericValue* ValueIterator;
  typedef const GenericValue* ConstValueIterator;
  typedef GenericValue<Encoding, Allocator> ValueType;
  typedef GenericArray<ValueType> Array;
  typedef GenericArray<ValueType> ConstArray;
  typedef GenericObject<ValueType> Object;
  typedef GenericObject<ValueType> ConstObject;

  //------------------------------------------------------------------ ctors
  GenericValue() : type_(kNullType), nk_(kNotNumber), a_(0), o_(0) { n_.u = 0; }

  explicit GenericValue(Type type) : type_(type), nk_(kNotNumber), a_(0), o_(0) {
    n_.u = 0;
    if (type == kNumberType) nk_ = kNumUint;
    else if (type == kArrayType) a_ = new std::vector<GenericValue>();
    else if (type == kObjectType) o_ = new std::vector<Member>();
  }

  explicit GenericValue(bool b) : type_(b ? kTrueType : kFalseType), nk_(kNotNumber), a_(0), o_(0) { n_.u = 0; }
  explicit GenericValue(int i) : type_(kNumberType), a_(0), o_(0) { SetInt64Raw(i); }
  explicit GenericValue(unsigned u) : type_(kNumberType), nk_(kNumUint), a_(0), o_(0) { n_.u = u; }
  explicit GenericValue(int64_t i) : type_(kNumberType), a_(0), o_(0) { SetInt64Raw(i); }
  explicit GenericValue(uint64_t u) : type_(kNumberType), nk_(kNumUint), a_(0), o_(0) { n_.u = u; }
  explicit GenericValue(double d) : type_(kNumberType), nk_(kNumDouble), a_(0), o_(0) { n_.d = d; }
  explicit GenericValue(float f) : type_(kNumberType), nk_(kNumDouble), a_(0), o_(0) { n_.d = static_cast<double>(f); }
  GenericValue(const Ch* s, SizeType length)
      : type_(kStringType), nk_(kNotNumber), s_(s, length), a_(0), o_(0) { n_.u = 0; }
  explicit GenericValue(const Ch* s)
      : type_(kStringType), nk_(kNotNumber), s_(s), a_(0), o_(0) { n_.u = 0; }
  explicit GenericValue(const std::basic_string<Ch>& s)
      : type_(kStringType), nk_(kNotNumber), s_(s), a_(0), o_(0) { n_.u = 0; }

  //! Deep copy.  (The real library makes this private and offers CopyFrom /
  //! move semantics instead; a public deep copy is a superset.)
  GenericValue(const GenericValue& rhs)
      : type_(rhs.type_), nk_(rhs.nk_), n_(rhs.n_), s_(rhs.s_), a_(0), o_(0) {
    if (rhs.a_) a_ = new std::vector<GenericValue>(*rhs.a_);
    if (rhs.o_) o_ = new std::vector<Member>(*rhs.o_);
  }

  GenericValue(GenericValue&& rhs) noexcept
      : type_(rhs.type_), nk_(rhs.nk_), n_(rhs.n_), s_(std::move(rhs.s_)), a_(rhs.a_), o_(rhs.o_) {
    rhs.a_ = 0;
    rhs.o_ = 0;
    rhs.type_ = kNullType;
    rhs.nk_ = kNotNumber;
  }

  ~GenericValue() { Destroy(); }

  GenericValue& operator=(const GenericValue& rhs) {
    if (this != &rhs) {
      GenericValue tmp(rhs);
      Swap(tmp);
    }
    return *this;
  }

  GenericValue& operator=(GenericValue&& rhs) noexcept {
    if (this != &rhs) {
      Destroy();
      type_ = rhs.type_;
      nk_ = rhs.nk_;
      n_ = rhs.n_;
      s_ = std::move(rhs.s_);
      a_ = rhs.a_;
      o_ = rhs.o_;
      rhs.a_ = 0;
      rhs.o_ = 0;
      rhs.type_ = kNullType;
      rhs.nk_ = kNotNumber;
    }
    return *this;
  }

  GenericValue& Swap(GenericValue& other) noexcept {
    std::swap(type_, other.type_);
    std::swap(nk_, other.nk_);
    std::swap(n_, other.n_);
    s_.swap(other.s_);
    std::swap(a_, other.a_);
    std::swap(o_, other.o_);
    return *this;
  }
  friend inline void swap(GenericValue& a, GenericValue& b) noexcept { a.Swap(b); }

  //! Deep copy from another value (allocator argument accepted and ignored).
  template <typename SourceValue>
  GenericValue& CopyFrom(const SourceValue& rhs, Allocator& /*allocator*/, bool /*copyConstStrings*/ = false) {
    *this = rhs;
    return *this;
  }

  //--------------------------------------------------------------- equality
  //! RapidJSON semantics: types must match (true and false are different
  //! types, all numbers are one type); objects compare as unordered sets of
  //! members; numbers compare as doubles if either side is a double (so
  //! NaN != NaN and 1 == 1.0), otherwise by their 64-bit integer pattern.
  bool operator==(const GenericValue& rhs) const {
    if (GetType() != rhs.GetType()) return false;
    switch (GetType()) {
      case kObjectType: {
        if (MemberCount() != rhs.MemberCount()) return false;
        for (ConstMemberIterator l = MemberBegin(); l != MemberEnd(); ++l) {
          ConstMemberIterator r = rhs.FindMember(l->name);
          if (r == rhs.MemberEnd() || !(l->value == r->value)) return false;
        }
        return true;
      }
      case kArrayType: {
        if (Size() != rhs.Size()) return false;
        for (SizeType i = 0; i < Size(); i++)
          if (!((*this)[i] == rhs[i])) return false;
        return true;
      }
      case kStringType:
        return s_ == rhs.s_;
      case kNumberType:
        if (IsDouble() || rhs.IsDouble()) {
          double a = GetDouble();
          double b = rhs.GetDouble();
          return a >= b && a <= b;  // false for NaN, without -Wfloat-equal noise
        }
        else {
          return n_.u == rhs.n_.u;
        }
      default:
        return true;
    }
  }
  bool operator==(const Ch* rhs) const { return IsString() && s_ == rhs; }
  bool operator==(const std::basic_string<Ch>& rhs) const { return IsString() && s_ == rhs; }
  bool operator==(bool rhs) const { return IsBool() && GetBool() == rhs; }
  bool operator==(int rhs) const { return *this == GenericValue(rhs); }
  bool operator==(unsigned rhs) const { return *this == GenericValue(rhs); }
  bool operator==(int64_t rhs) const { return *this == GenericValue(rhs); }
  bool operator==(uint64_t rhs) const { return *this == GenericValue(rhs); }
  bool operator==(double rhs) const { return *this == GenericValue(rhs); }
  template <typename T> bool operator!=(const T& rhs) const { return !(*this == rhs); }

  //------------------------------------------------------------------- type
  Type GetType() const { return type_; }
  bool IsNull() const { return type_ == kNullType; }
  bool IsFalse() const { return type_ == kFalseType; }
  bool IsTrue() const { return type_ == kTrueType; }
  bool IsBool() const { return type_ == kTrueType || type_ == kFalseType; }
  bool IsObject() const { return type_ == kObjectType; }
  bool IsArray() const { return type_ == kArrayType; }
  bool IsString() const { return type_ == kStringType; }
  bool IsNumber() const { return type_ == kNumberType; }

  // Integer predicates are value based, exactly like the flag bits the real
  // library sets when it stores a number: 5 is Int, Uint, Int64 and Uint64;
  // -5 is Int and Int64; 3000000000 is Uint, Int64 and Uint64; a number
  // parsed with a fraction or exponent is only Double.
  bool IsInt() const {
    if (nk_ == kNumInt) return n_.i >= static_cast<int64_t>(std::numeric_limits<int32_t>::min());
    if (nk_ == kNumUint) return n_.u <= static_cast<uint64_t>(std::numeric_limits<int32_t>::max());
    return false;
  }
  bool IsUint() const {
    return nk_ == kNumUint && n_.u <= static_cast<uint64_t>(std::numeric_limits<uint32_t>::max());
  }
  bool IsInt64() const {
    if (nk_ == kNumInt) return true;
    if (nk_ == kNumUint) return n_.u <= static_cast<uint64_t>(std::numeric_limits<int64_t>::max());
    return false;
  }
  bool IsUint64() const { return nk_ == kNumUint; }
  bool IsDouble() const { return nk_ == kNumDouble; }

  bool IsLosslessDouble() const {
    if (!IsNumber()) return false;
    if (nk_ == kNumUint) {
      uint64_t u = n_.u;
      volatile double d = static_cast<double>(u);
      return d >= 0.0 && d < 18446744073709551616.0 && u == static_cast<uint64_t>(d);
    }
    if (nk_ == kNumInt) {
      int64_t i = n_.i;
      volatile double d = static_cast<double>(i);
      return d >= -9223372036854775808.0 && d < 9223372036854775808.0 && i == static_cast<int64_t>(d);
    }
    return true;
  }
  bool IsFloat() const {
    if (nk_ != kNumDouble) return false;
    double d = n_.d;
    return d >= -3.4028234e38 && d <= 3.4028234e38;
  }
  bool IsLosslessFloat() const {
    if (!IsNumber()) return false;
    double a = GetDouble();
    if (a < static_cast<double>(-std::numeric_limits<float>::max()) ||
        a > static_cast<double>(std::numeric_limits<float>::max()))
      return false;
    double b = static_cast<double>(static_cast<float>(a));
    return a >= b && a <= b;
  }

  //--------------------------------------------------------- null / bool
  GenericValue& SetNull() { Destroy(); type_ = kNullType; nk_ = kNotNumber; s_.clear(); return *this; }
  bool GetBool() const { RAPIDJSON_ASSERT(IsBool()); return type_ == kTrueType; }
  GenericValue& SetBool(bool b) { SetNull(); type_ = b ? kTrueType : kFalseType; return *this; }

  //---------------------------------------------------------------- numbers
  int GetInt() const { RAPIDJSON_ASSERT(IsInt()); return static_cast<int>(AsInt64()); }
  unsigned GetUint() const { RAPIDJSON_ASSERT(IsUint()); return static_cast<unsigned>(AsInt64()); }
  int64_t GetInt64() const { RAPIDJSON_ASSERT(IsInt64()); return AsInt64(); }
  uint64_t GetUint64() const { RAPIDJSON_ASSERT(IsUint64()); return static_cast<uint64_t>(AsInt64()); }
  //! Converts from any number representation (may lose precision for 64-bit
  //! integers), like the real one.
  double GetDouble() const {
    RAPIDJSON_ASSERT(IsNumber());
    if (nk_ == kNumDouble) return n_.d;
    if (nk_ == kNumInt) return static_cast<double>(n_.i);
    if (nk_ == kNumUint) return static_cast<double>(n_.u);
    return 0.0;
  }
  float GetFloat() const { return static_cast<float>(GetDouble()); }

  GenericValue& SetInt(int i) { SetNull(); type_ = kNumberType; SetInt64Raw(i); return *this; }
  GenericValue& SetUint(unsigned u) { SetNull(); type_ = kNumberType; nk_ = kNumUint; n_.u = u; return *this; }
  GenericValue& SetInt64(int64_t i) { SetNull(); type_ = kNumberType; SetInt64Raw(i); return *this; }
  GenericValue& SetUint64(uint64_t u) { SetNull(); type_ = kNumberType; nk_ = kNumUint; n_.u = u; return *this; }
  GenericValue& SetDouble(double d) { SetNull(); type_ = kNumberType; nk_ = kNumDouble; n_.d = d; return *this; }

  //---------------------------------------------------------------- strings
  //! NUL-terminated; may contain embedded NULs, see GetStringLength().
  const Ch* GetString() const { RAPIDJSON_ASSERT(IsString()); return s_.c_str(); }
  SizeType GetStringLength() const { RAPIDJSON_ASSERT(IsString()); return static_cast<SizeType>(s_.size()); }

  //----------------------------------------------------------------- arrays
  SizeType Size() const { RAPIDJSON_ASSERT(IsArray()); return a_ ? static_cast<SizeType>(a_->size()) : 0; }
  SizeType Capacity() const { return Size(); }
  bool Empty() const { return Size() == 0; }

  GenericValue& operator[](SizeType index) {
    RAPIDJSON_ASSERT(IsArray());
    RAPIDJSON_ASSERT(a_ && index < a_->size());
    if (!(a_ && index < a_->size())) return Scratch();
    return (*a_)[index];
  }
  const GenericValue& operator[](SizeType index) const { return const_cast<GenericValue&>(*this)[index]; }
  // `v[0]` would otherwise be ambiguous between SizeType and a null pointer.
  GenericValue& operator[](int index) { return (*this)[static_cast<SizeType>(index)]; }
  const GenericValue& operator[](int index) const { return (*this)[static_cast<SizeType>(index)]; }

  ValueIterator Begin() { RAPIDJSON_ASSERT(IsArray()); return (a_ && !a_->empty()) ? &(*a_)[0] : 0; }
  ValueIterator End() { RAPIDJSON_ASSERT(IsArray()); return (a_ && !a_->empty()) ? &(*a_)[0] + a_->size() : 0; }
  ConstValueIterator Begin() const { return const_cast<GenericValue&>(*this).Begin(); }
  ConstValueIterator End() const { return const_cast<GenericValue&>(*this).End(); }

  Array GetArray() const { RAPIDJSON_ASSERT(IsArray()); return Array(*this); }

  //---------------------------------------------------------------- objects
  SizeType MemberCount() const { RAPIDJSON_ASSERT(IsObject()); return o_ ? static_cast<SizeType>(o_->size()) : 0; }
  SizeType MemberCapacity() const { return MemberCount(); }
  bool ObjectEmpty() const { return MemberCount() == 0; }

  MemberIterator MemberBegin() { RAPIDJSON_ASSERT(IsObject()); return (o_ && !o_->empty()) ? &(*o_)[0] : 0; }
  MemberIterator MemberEnd() { RAPIDJSON_ASSERT(IsObject()); return (o_ && !o_->empty()) ? &(*o_)[0] + o_->size() : 0; }
  ConstMemberIterator MemberBegin() const { return const_cast<GenericValue&>(*this).MemberBegin(); }
  ConstMemberIterator MemberEnd() const { return const_cast<GenericValue&>(*this).MemberEnd(); }

  //! First member with that name, or MemberEnd().
  MemberIterator FindMember(const Ch* name) {
    RAPIDJSON_ASSERT(IsObject());
    RAPIDJSON_ASSERT(name != 0);
    return FindMemberImpl(name, internal::StrLen(name));
  }
  MemberIterator FindMember(const std::basic_string<Ch>& name) {
    RAPIDJSON_ASSERT(IsObject());
    return FindMemberImpl(name.data(), static_cast<SizeType>(name.size()));
  }
  MemberIterator FindMember(const GenericValue& name) {
    RAPIDJSON_ASSERT(IsObject());
    RAPIDJSON_ASSERT(name.IsString());
    return FindMemberImpl(name.s_.data(), static_cast<SizeType>(name.s_.size()));
  }
  ConstMemberIterator FindMember(const Ch* name) const { return const_cast<GenericValue&>(*this).FindMember(name); }
  ConstMemberIterator FindMember(const std::basic_string<Ch>& name) const { return const_cast<GenericValue&>(*this).FindMember(name); }
  ConstMemberIterator FindMember(const GenericValue& name) const { return const_cast<GenericValue&>(*this).FindMember(name); }

  bool HasMember(const Ch* name) const { return FindMember(name) != MemberEnd(); }
  bool HasMember(const std::basic_string<Ch>& name) const { return FindMember(name) != MemberEnd(); }
  bool HasMember(const GenericValue& name) const { return FindMember(name) != MemberEnd(); }

  //! Member lookup.  A missing member is an assertion failure; with
  //! assertions disabled a shared Null value is returned (as in recent
  //! versions of the real library).
  template <typename T>
  GenericValue& operator[](T* name) {
    MemberIterator m = FindMember(static_cast<const Ch*>(name));
    if (m != MemberEnd()) return m->value;
    RAPIDJSON_ASSERT(false);  // see above
    return Scratch();
  }
  template <typename T>
  const GenericValue& operator[](T* name) const { return const_cast<GenericValue&>(*this)[name]; }
  GenericValue& operator[](const std::basic_string<Ch>& name) { return (*this)[name.c_str()]; }
  const GenericValue& operator[](const std::basic_string<Ch>& name) const { return (*this)[name.c_str()]; }

  Object GetObject() const { RAPIDJSON_ASSERT(IsObject()); return Object(*this); }

  //------------------------------------------------------------------- SAX
  //! Replays this value as SAX events (what Writer / PrettyWriter consume).
  template <typename Handler>
  bool Accept(Handler& handler) const {
    switch (GetType()) {
      case kNullType:  return handler.Null();
      case kFalseType: return handler.Bool(false);
      case kTrueType:  return handler.Bool(true);
      case kObjectType:
        if (!handler.StartObject()) return false;
        for (ConstMemberIterator m = MemberBegin(); m != MemberEnd(); ++m) {
          RAPIDJSON_ASSERT(m->name.IsString());
          if (!handler.Key(m->name.GetString(), m->name.GetStringLength(), true)) return false;
          if (!m->value.Accept(handler)) return false;
        }
        return handler.EndObject(MemberCount());
      case kArrayType:
        if (!handler.StartArray()) return false;
        for (ConstValueIterator v = Begin(); v != End(); ++v)
          if (!v->Accept(handler)) return false;
        return handler.EndArray(Size());
      case kStringType:
        return handler.String(GetString(), GetStringLength(), true);
      default:
        RAPIDJSON_ASSERT(GetType() == kNumberType);
        if (IsDouble()) return handler.Double(n_.d);
        else if (IsInt()) return handler.Int(static_cast<int>(AsInt64()));
        else if (IsUint()) return handler.Uint(static_cast<unsigned>(n_.u));
        else if (IsInt64()) return handler.Int64(AsInt64());
        else return handler.Uint64(n_.u);
    }
  }

private:
  template <typename, typename, typename> friend class GenericDocument;

  enum NumKind {
    kNotNumber = 0,
    kNumInt,     //!< strictly negative integer, stored in n_.i
    kNumUint,    //!< non-negative integer, stored in n_.u
    kNumDouble   //!< stored in n_.d
  };
  union Number {
    int64_t i;
    uint64_t u;
    double d;
  };

  void SetInt64Raw(int64_t i) {
    if (i < 0) { nk_ = kNumInt; n_.i = i; }
    else { nk_ = kNumUint; n_.u = static_cast<uint64_t>(i); }
  }

  int64_t AsInt64() const {
    if (nk_ == kNumInt) return n_.i;
    if (nk_ == kNumUint) return static_cast<int64_t>(n_.u);
    if (nk_ == kNumDouble) return static_cast<int64_t>(n_.d);
    return 0;
  }

  MemberIterator FindMemberImpl(const Ch* name, SizeType length) {
    if (!o_) return MemberEnd();
    for (size_t i = 0; i < o_->size(); i++) {
      const std::basic_string<Ch>& n = (*o_)[i].name.s_;
      if (n.size() == length && (length == 0 || std::memcmp(n.data(), name, length * sizeof(Ch)) == 0))
        return &(*o_)[i];
    }
    return MemberEnd();
  }

  void Destroy() {
    delete a_;
    a_ = 0;
    delete o_;
    o_ = 0;
  }

  //! Returned (reset to Null) when an out-of-range / missing element is
  //! requested and assertions are disabled.
  static GenericValue& Scratch() {
    static GenericValue scratch;
    scratch.SetNull();
    return scratch;
  }

  Type type_;
  NumKind nk_;
  Number n_;
  std::basic_string<Ch> s_;
  std::vector<GenericValue>* a_;   //!< non-null iff array
  std::vector<Member>* o_;         //!< non-null iff object
};

typedef GenericValue<UTF8<> > Value;

//! A JSON document: a GenericValue that can parse itself.  It is its own SAX
//! handler, as in the real library.
template <typename Encoding, typename Allocator, typename StackAllocator>
class GenericDocument : public GenericValue<Encoding, Allocator> {
public:
  typedef typename Encoding::Ch Ch;
  typedef GenericValue<Encoding, Allocator> ValueType;
  typedef Allocator AllocatorType;

  explicit GenericDocument(Type type, Allocator* = 0, size_t = 1024, StackAllocator* = 0)
      : ValueType(type), parseResult_() {}
  GenericDocument(Allocator* = 0, size_t = 1024, StackAllocator* = 0)
      : ValueType(), parseResult_() {}

  //! On success the document becomes the parsed root; on failure it is left
  //! unchanged (a fresh Document stays Null) and HasParseError() is true.
  template <unsigned parseFlags, typename SourceEncoding, typename InputStream>
  GenericDocument& ParseStream(InputStream& is) {
    GenericReader<SourceEncoding, Encoding, StackAllocator> reader;
    stack_.clear();
    parseResult_ = reader.template Parse<parseFlags>(is, *this);
    if (parseResult_) {
      RAPIDJSON_ASSERT(stack_.size() == 1);  // got one and only one root
      if (stack_.size() == 1) ValueType::operator=(std::move(stack_.back()));
    }
    stack_.clear();
    return *this;
  }
  template <unsigned parseFlags, typename InputStream>
  GenericDocument& ParseStream(InputStream& is) { return ParseStream<parseFlags, Encoding, InputStream>(is); }
  template <typename InputStream>
  GenericDocument& ParseStream(InputStream& is) { return ParseStream<kParseDefaultFlags, Encoding, InputStream>(is); }

  template <unsigned parseFlags>
  GenericDocument& Parse(const Ch* str) {
    RAPIDJSON_ASSERT(str != 0);
    GenericStringStream<Encoding> s(str);
    return ParseStream<parseFlags, Encoding>(s);
  }
  GenericDocument& Parse(const Ch* str) { return Parse<kParseDefaultFlags>(str); }

  //! Length-delimited variant: stops at `length` or at the first NUL,
  //! whichever comes first.
  template <unsigned parseFlags>
  GenericDocument& Parse(const Ch* str, size_t length) {
    RAPIDJSON_ASSERT(str != 0);
    std::basic_string<Ch> copy(str, length);
    return Parse<parseFlags>(copy.c_str());
  }
  GenericDocument& Parse(const Ch* str, size_t length) { return Parse<kParseDefaultFlags>(str, length); }

  template <unsigned parseFlags>
  GenericDocument& Parse(const std::basic_string<Ch>& str) { return Parse<parseFlags>(str.c_str()); }
  GenericDocument& Parse(const std::basic_string<Ch>& str) { return Parse<kParseDefaultFlags>(str.c_str()); }

  bool HasParseError() const { return parseResult_.IsError(); }
  ParseErrorCode GetParseError() const { return parseResult_.Code(); }
  size_t GetErrorOffset() const { return parseResult_.Offset(); }
  operator ParseResult() const { return parseResult_; }

  Allocator& GetAllocator() { return allocator_; }
  size_t GetStackCapacity() const { return stack_.capacity() * sizeof(ValueType); }

  // ----- SAX handler interface used by GenericReader while parsing --------
  bool Null() { stack_.push_back(ValueType()); return true; }
  bool Bool(bool b) { stack_.push_back(ValueType(b)); return true; }
  bool Int(int i) { stack_.push_back(ValueType(i)); return true; }
  bool Uint(unsigned i) { stack_.push_back(ValueType(i)); return true; }
  bool Int64(int64_t i) { stack_.push_back(ValueType(i)); return true; }
  bool Uint64(uint64_t i) { stack_.push_back(ValueType(i)); return true; }
  bool Double(double d) { stack_.push_back(ValueType(d)); return true; }
  bool RawNumber(const Ch* str, SizeType length, bool) { stack_.push_back(ValueType(str, length)); return true; }
  bool String(const Ch* str, SizeType length, bool) { stack_.push_back(ValueType(str, length)); return true; }
  bool StartObject() { stack_.push_back(ValueType(kObjectType)); return true; }
  bool Key(const Ch* str, SizeType length, bool copy) { return String(str, length, copy); }
  bool EndObject(SizeType memberCount) {
    const size_t n = static_cast<size_t>(memberCount) * 2;
    RAPIDJSON_ASSERT(stack_.size() >= n + 1);
    const size_t base = stack_.size() - n;
    ValueType& object = stack_[base - 1];
    RAPIDJSON_ASSERT(object.IsObject());
    object.o_->reserve(memberCount);
    for (size_t i = 0; i < n; i += 2) {
      object.o_->push_back(typename ValueType::Member());
      object.o_->back().name = std::move(stack_[base + i]);
      object.o_->back().value = std::move(stack_[base + i + 1]);
    }
    stack_.resize(base);
    return true;
  }
  bool StartArray() { stack_.push_back(ValueType(kArrayType)); return true; }
  bool EndArray(SizeType elementCount) {
    const size_t n = static_cast<size_t>(elementCount);
    RAPIDJSON_ASSERT(stack_.size() >= n + 1);
    const size_t base = stack_.size() - n;
    ValueType& array = stack_[base - 1];
    RAPIDJSON_ASSERT(array.IsArray());
    array.a_->reserve(n);
    for (size_t i = 0; i < n; i++) array.a_->push_back(std::move(stack_[base + i]));
    stack_.resize(base);
    return true;
  }

private:
  GenericDocument(const GenericDocument&);
  GenericDocument& operator=(const GenericDocument&);

  std::vector<ValueType> stack_;
  ParseResult parseResult_;
  Allocator allocator_;
};

typedef GenericDocument<UTF8<> > Document;

RAPIDJSON_NAMESPACE_END

#endif // RAPIDJSON_DOCUMENT_H_
