// Harness shim of rapidjson/error/error.h (see ../rapidjson.h).
#ifndef RAPIDJSON_ERROR_ERROR_H_
#define RAPIDJSON_ERROR_ERROR_H_

#include "../rapidjson.h"

RAPIDJSON_NAMESPACE_BEGIN

//! Same names and numeric values as the real library.
enum ParseErrorCode {
  kParseErrorNone = 0,
  kParseErrorDocumentEmpty,
  kParseErrorDocumentRootNotSingular,
  kParseErrorValueInvalid,
  kParseErrorObjectMissName,
  kParseErrorObjectMissColon,
  kParseErrorObjectMissCommaOrCurlyBracket,
  kParseErrorArrayMissCommaOrSquareBracket,
  kParseErrorStringUnicodeEscapeInvalidHex,
  kParseErrorStringUnicodeSurrogateInvalid,
  kParseErrorStringEscapeInvalid,
  kParseErrorStringMissQuotationMark,
  kParseErrorStringInvalidEncoding,
  kParseErrorNumberTooBig,
  kParseErrorNumberMissFraction,
  kParseErrorNumberMissExponent,
  kParseErrorTermination,
  kParseErrorUnspecificSyntaxError
};

//! Result of parsing; converts to `true` when there was NO error.
struct ParseResult {
  //! Safe-bool idiom so that `bool ok = reader.Parse(...)` works (as it does
  //! with the real library) without enabling arithmetic on the result.
  typedef bool (ParseResult::*BooleanType)() const;

  ParseResult() : code_(kParseErrorNone), offset_(0) {}
  ParseResult(ParseErrorCode code, size_t offset) : code_(code), offset_(offset) {}

  ParseErrorCode Code() const { return code_; }
  size_t Offset() const { return offset_; }
  bool IsError() const { return code_ != kParseErrorNone; }

  operator BooleanType() const { return !IsError() ? &ParseResult::IsError : NULL; }

  bool operator==(const ParseResult& that) const { return code_ == that.code_; }
  bool operator==(ParseErrorCode code) const { return code_ == code; }
  friend bool operator==(ParseErrorCode code, const ParseResult& err) { return code == err.code_; }
  bool operator!=(const ParseResult& that) const { return !(*this == that); }
  bool operator!=(ParseErrorCode code) const { return !(*this == code); }
  friend bool operator!=(ParseErrorCode code, const ParseResult& err) { return err != code; }

  void Clear() { Set(kParseErrorNone); }
  void Set(ParseErrorCode code, size_t offset = 0) { code_ = code; offset_ = offset; }

private:
  ParseErrorCode code_;
  size_t offset_;
};

typedef const char* (*GetParseErrorFunc)(ParseErrorCode);

RAPIDJSON_NAMESPACE_END

#endif // RAPIDJSON_ERROR_ERROR_H_
