// Harness shim of rapidjson/stringbuffer.h (see rapidjson.h).
#ifndef RAPIDJSON_STRINGBUFFER_H_
#define RAPIDJSON_STRINGBUFFER_H_

#include <string>

#include "rapidjson.h"
#include "stream.h"

RAPIDJSON_NAMESPACE_BEGIN

//! In-memory output stream backed by a std::string.
template <typename Encoding, typename Allocator = CrtAllocator>
class GenericStringBuffer {
public:
  typedef typename Encoding::Ch Ch;
  static const size_t kDefaultCapacity = 256;

  GenericStringBuffer(Allocator* = 0, size_t capacity = kDefaultCapacity) : buf_() { buf_.reserve(capacity); }

  void Put(Ch c) { buf_.push_back(c); }
  void PutUnsafe(Ch c) { buf_.push_back(c); }
  void Flush() {}

  void Clear() { buf_.clear(); }
  void ShrinkToFit() { std::basic_string<Ch>(buf_).swap(buf_); }
  void Reserve(size_t count) { buf_.reserve(buf_.size() + count); }
  Ch* Push(size_t count) { size_t old = buf_.size(); buf_.resize(old + count); return &buf_[old]; }
  void Pop(size_t count) { RAPIDJSON_ASSERT(count <= buf_.size()); buf_.resize(buf_.size() - (count <= buf_.size() ? count : buf_.size())); }

  //! NUL-terminated contents (valid until the next modification).
  const Ch* GetString() const { return buf_.c_str(); }
  //! Size in bytes.
  size_t GetSize() const { return buf_.size() * sizeof(Ch); }
  //! Length in characters.
  size_t GetLength() const { return buf_.size(); }

private:
  GenericStringBuffer(const GenericStringBuffer&);
  GenericStringBuffer& operator=(const GenericStringBuffer&);

  std::basic_string<Ch> buf_;
};

typedef GenericStringBuffer<UTF8<> > StringBuffer;

template <>
inline void PutN(GenericStringBuffer<UTF8<> >& stream, char c, size_t n) {
  for (size_t i = 0; i < n; i++) stream.Put(c);
}

RAPIDJSON_NAMESPACE_END

#endif // RAPIDJSON_STRINGBUFFER_H_
