// Harness shim of rapidjson/filewritestream.h (see rapidjson.h).  Same
// behaviour as the real class: characters accumulate in the user-supplied
// buffer and reach the FILE* only on Flush() (fwrite, no fflush) or when the
// buffer fills up.  The destructor does NOT flush (neither does the real one);
// Writer/PrettyWriter flush when the root value is complete.
#ifndef RAPIDJSON_FILEWRITESTREAM_H_
#define RAPIDJSON_FILEWRITESTREAM_H_

#include <cstdio>
#include <cstring>

#include "rapidjson.h"
#include "stream.h"

RAPIDJSON_NAMESPACE_BEGIN

class FileWriteStream {
public:
  typedef char Ch;

  FileWriteStream(std::FILE* fp, char* buffer, size_t bufferSize)
      : fp_(fp), buffer_(buffer), bufferEnd_(buffer + bufferSize), current_(buffer_) {
    RAPIDJSON_ASSERT(fp_ != 0);
  }

  void Put(char c) {
    if (current_ >= bufferEnd_) Flush();
    *current_++ = c;
  }

  void PutN(char c, size_t n) {
    size_t avail = static_cast<size_t>(bufferEnd_ - current_);
    while (n > avail) {
      std::memset(current_, c, avail);
      current_ += avail;
      Flush();
      n -= avail;
      avail = static_cast<size_t>(bufferEnd_ - current_);
    }
    if (n > 0) {
      std::memset(current_, c, n);
      current_ += n;
    }
  }

  void Flush() {
    if (current_ != buffer_) {
      size_t result = std::fwrite(buffer_, 1, static_cast<size_t>(current_ - buffer_), fp_);
      if (result < static_cast<size_t>(current_ - buffer_)) {
        // failure deliberately ignored (as in the real library)
      }
      current_ = buffer_;
    }
  }

  // Not implemented (output-only stream)
  char Peek() const { RAPIDJSON_ASSERT(false); return 0; }
  char Take() { RAPIDJSON_ASSERT(false); return 0; }
  size_t Tell() const { RAPIDJSON_ASSERT(false); return 0; }
  char* PutBegin() { RAPIDJSON_ASSERT(false); return 0; }
  size_t PutEnd(char*) { RAPIDJSON_ASSERT(false); return 0; }

private:
  FileWriteStream(const FileWriteStream&);
  FileWriteStream& operator=(const FileWriteStream&);

  std::FILE* fp_;
  char* buffer_;
  char* bufferEnd_;
  char* current_;
};

template <>
inline void PutN(FileWriteStream& stream, char c, size_t n) {
  stream.PutN(c, n);
}

RAPIDJSON_NAMESPACE_END

#endif // RAPIDJSON_FILEWRITESTREAM_H_
