// Harness shim of rapidjson/filereadstream.h (see rapidjson.h).  Same
// buffering algorithm as the real class: the user-supplied buffer is refilled
// with fread() when exhausted and a '\0' is appended at end of file.
#ifndef RAPIDJSON_FILEREADSTREAM_H_
#define RAPIDJSON_FILEREADSTREAM_H_

#include <cstdio>

#include "rapidjson.h"
#include "stream.h"

RAPIDJSON_NAMESPACE_BEGIN

class FileReadStream {
public:
  typedef char Ch;

  //! \param fp          file opened for reading
  //! \param buffer      user-supplied buffer
  //! \param bufferSize  size of buffer in bytes; must be >= 4
  FileReadStream(std::FILE* fp, char* buffer, size_t bufferSize)
      : fp_(fp), buffer_(buffer), bufferSize_(bufferSize), bufferLast_(0),
        current_(buffer_), readCount_(0), count_(0), eof_(false) {
    RAPIDJSON_ASSERT(fp_ != 0);
    RAPIDJSON_ASSERT(bufferSize >= 4);
    Read();
  }

  Ch Peek() const { return *current_; }
  Ch Take() { Ch c = *current_; Read(); return c; }
  size_t Tell() const { return count_ + static_cast<size_t>(current_ - buffer_); }

  // Not implemented (input-only stream)
  void Put(Ch) { RAPIDJSON_ASSERT(false); }
  void Flush() { RAPIDJSON_ASSERT(false); }
  Ch* PutBegin() { RAPIDJSON_ASSERT(false); return 0; }
  size_t PutEnd(Ch*) { RAPIDJSON_ASSERT(false); return 0; }

  // For encoding detection only.
  const Ch* Peek4() const { return (current_ + 4 - !eof_ <= bufferLast_) ? current_ : 0; }

private:
  void Read() {
    if (current_ < bufferLast_) {
      ++current_;
    }
    else if (!eof_) {
      count_ += readCount_;
      readCount_ = std::fread(buffer_, 1, bufferSize_, fp_);
      bufferLast_ = buffer_ + readCount_ - 1;
      current_ = buffer_;

      if (readCount_ < bufferSize_) {
        buffer_[readCount_] = '\0';
        ++bufferLast_;
        eof_ = true;
      }
    }
  }

  std::FILE* fp_;
  Ch* buffer_;
  size_t bufferSize_;
  Ch* bufferLast_;
  Ch* current_;
  size_t readCount_;
  size_t count_;  //!< Number of characters read
  bool eof_;
};

RAPIDJSON_NAMESPACE_END

#endif // RAPIDJSON_FILEREADSTREAM_H_
