// Harness shim of rapidjson/writer.h (see rapidjson.h): compact JSON writer
// with the same separators, string escaping, Flush-at-end-of-root behaviour,
// NaN/Inf policy and double "prettifying" rules (incl. SetMaxDecimalPlaces
// truncation) as rapidjson::Writer.  The only intended difference is how the
// shortest round-trip digits of a double are found (see WriteDouble).
#ifndef RAPIDJSON_WRITER_H_
#define RAPIDJSON_WRITER_H_

#include <cmath>
#include <cstdio>
#include <cstdlib>
#include <string>
#include <vector>

#include "rapidjson.h"
#include "stream.h"
#include "stringbuffer.h"

RAPIDJSON_NAMESPACE_BEGIN

#ifndef RAPIDJSON_WRITE_DEFAULT_FLAGS
#define RAPIDJSON_WRITE_DEFAULT_FLAGS kWriteNoFlags
#endif

enum WriteFlag {
  kWriteNoFlags = 0,
  kWriteValidateEncodingFlag = 1,  //!< ignored
  kWriteNanAndInfFlag = 2,         //!< write NaN / Infinity / -Infinity
  kWriteDefaultFlags = RAPIDJSON_WRITE_DEFAULT_FLAGS
};

namespace internal {

  //! Shortest decimal digit string that round-trips `value` (value > 0,
  //! finite).  Returns digits without trailing zeros and sets K such that
  //! value == 0.d1d2...dn * 10^n * 10^K == (digits as integer) * 10^K.
  //! (Real rapidjson uses Grisu2, which yields the same digits except in rare
  //! cases where Grisu2 is not optimal.)
  inline std::string ShortestDigits(double value, int* K) {
    char buf[64];
    int prec = 1;
    for (; prec <= 17; prec++) {
      std::snprintf(buf, sizeof(buf), "%.*e", prec - 1, value);
      if (prec == 17 || std::strtod(buf, 0) == value) break;
    }
    // buf looks like d[.ddd]e[+-]XX
    std::string digits;
    const char* p = buf;
    for (; *p && *p != 'e'; ++p)
      if (*p >= '0' && *p <= '9') digits.push_back(*p);
    int e10 = (*p == 'e') ? std::atoi(p + 1) : 0;
    while (digits.size() > 1 && digits[digits.size() - 1] == '0') digits.erase(digits.size() - 1);
    *K = e10 - (static_cast<int>(digits.size()) - 1);
    return digits;
  }

  inline void WriteExponent(int K, std::string& out) {
    if (K < 0) { out.push_back('-'); K = -K; }
    char tmp[16];
    std::snprintf(tmp, sizeof(tmp), "%d", K);  // no padding, no '+' (as real)
    out += tmp;
  }

  //! Line-by-line port of rapidjson::internal::Prettify (dtoa.h) to
  //! std::string.
  inline std::string Prettify(const std::string& digits, int k, int maxDecimalPlaces) {
    const int length = static_cast<int>(digits.size());
    const int kk = length + k;  // 10^(kk-1) <= v < 10^kk
    std::string b;

    if (0 <= k && kk <= 21) {
      // 1234e7 -> 12340000000.0
      b = digits;
      b.append(static_cast<size_t>(k), '0');
      b += ".0";
      return b;
    }
    else if (0 < kk && kk <= 21) {
      // 1234e-2 -> 12.34
      b = digits.substr(0, static_cast<size_t>(kk)) + "." + digits.substr(static_cast<size_t>(kk));
      if (0 > k + maxDecimalPlaces) {
        // When maxDecimalPlaces = 2, 1.2345 -> 1.23, 1.102 -> 1.1
        // Remove extra trailing zeros (at least one) after truncation.
        for (int i = kk + maxDecimalPlaces; i > kk + 1; i--)
          if (b[static_cast<size_t>(i)] != '0') return b.substr(0, static_cast<size_t>(i + 1));
        return b.substr(0, static_cast<size_t>(kk + 2));  // Reserve one zero
      }
      return b;
    }
    else if (-6 < kk && kk <= 0) {
      // 1234e-6 -> 0.001234
      b = "0.";
      b.append(static_cast<size_t>(-kk), '0');
      b += digits;
      if (length - kk > maxDecimalPlaces) {
        // When maxDecimalPlaces = 2, 0.123 -> 0.12, 0.102 -> 0.1
        // Remove extra trailing zeros (at least one) after truncation.
        for (int i = maxDecimalPlaces + 1; i > 2; i--)
          if (b[static_cast<size_t>(i)] != '0') return b.substr(0, static_cast<size_t>(i + 1));
        return b.substr(0, 3);  // Reserve one zero
      }
      return b;
    }
    else if (kk < -maxDecimalPlaces) {
      // Truncate to zero
      return "0.0";
    }
    else if (length == 1) {
      // 1e30
      b = digits;
      b.push_back('e');
      WriteExponent(kk - 1, b);
      return b;
    }
    else {
      // 1234e30 -> 1.234e33
      b = digits.substr(0, 1) + "." + digits.substr(1);
      b.push_back('e');
      WriteExponent(kk - 1, b);
      return b;
    }
  }

  //! Equivalent of rapidjson::internal::dtoa for finite values.
  inline std::string Dtoa(double value, int maxDecimalPlaces) {
    RAPIDJSON_ASSERT(maxDecimalPlaces >= 1);
    if (value == 0.0) return std::signbit(value) ? "-0.0" : "0.0";
    std::string out;
    if (value < 0) { out.push_back('-'); value = -value; }
    int K = 0;
    std::string digits = ShortestDigits(value, &K);
    out += Prettify(digits, K, maxDecimalPlaces);
    return out;
  }

} // namespace internal

template <typename OutputStream, typename SourceEncoding = UTF8<>, typename TargetEncoding = UTF8<>,
          typename StackAllocator = CrtAllocator, unsigned writeFlags = kWriteDefaultFlags>
class Writer {
public:
  typedef typename SourceEncoding::Ch Ch;

  static const int kDefaultMaxDecimalPlaces = 324;
  static const size_t kDefaultLevelDepth = 32;

  explicit Writer(OutputStream& os, StackAllocator* = 0, size_t = kDefaultLevelDepth)
      : os_(&os), level_stack_(), maxDecimalPlaces_(kDefaultMaxDecimalPlaces), hasRoot_(false) {}

  explicit Writer(StackAllocator* = 0, size_t = kDefaultLevelDepth)
      : os_(0), level_stack_(), maxDecimalPlaces_(kDefaultMaxDecimalPlaces), hasRoot_(false) {}

  //! Reset the writer with a new stream (allows writing another root).
  void Reset(OutputStream& os) {
    os_ = &os;
    hasRoot_ = false;
    level_stack_.clear();
  }

  //! A complete JSON text has been written.
  bool IsComplete() const { return hasRoot_ && level_stack_.empty(); }

  int GetMaxDecimalPlaces() const { return maxDecimalPlaces_; }

  //! Truncates (does not round) the decimal part of doubles written in
  //! non-exponent form to at most this many places (>= 1 kept).
  void SetMaxDecimalPlaces(int maxDecimalPlaces) { maxDecimalPlaces_ = maxDecimalPlaces; }

  bool Null() { Prefix(kNullType); return EndValue(WriteNull()); }
  bool Bool(bool b) { Prefix(b ? kTrueType : kFalseType); return EndValue(WriteBool(b)); }
  bool Int(int i) { Prefix(kNumberType); return EndValue(WriteInt(i)); }
  bool Uint(unsigned u) { Prefix(kNumberType); return EndValue(WriteUint(u)); }
  bool Int64(int64_t i64) { Prefix(kNumberType); return EndValue(WriteInt64(i64)); }
  bool Uint64(uint64_t u64) { Prefix(kNumberType); return EndValue(WriteUint64(u64)); }

  //! Returns false (after having written the separator, like the real one)
  //! for NaN/Inf unless kWriteNanAndInfFlag is set.
  bool Double(double d) { Prefix(kNumberType); return EndValue(WriteDouble(d)); }

  bool RawNumber(const Ch* str, SizeType length, bool = false) {
    RAPIDJSON_ASSERT(str != 0);
    Prefix(kNumberType);
    return EndValue(WriteRawValue(str, length));
  }

  bool String(const Ch* str, SizeType length, bool = false) {
    RAPIDJSON_ASSERT(str != 0);
    Prefix(kStringType);
    return EndValue(WriteString(str, length));
  }

  bool String(const std::basic_string<Ch>& str) {
    return String(str.data(), SizeType(str.size()));
  }

  bool StartObject() {
    Prefix(kObjectType);
    level_stack_.push_back(Level(false));
    return WriteStartObject();
  }

  bool Key(const Ch* str, SizeType length, bool copy = false) { return String(str, length, copy); }
  bool Key(const std::basic_string<Ch>& str) { return Key(str.data(), SizeType(str.size())); }

  bool EndObject(SizeType = 0) {
    RAPIDJSON_ASSERT(!level_stack_.empty());                     // not inside an Object
    RAPIDJSON_ASSERT(!level_stack_.back().inArray);              // currently inside an Array, not Object
    RAPIDJSON_ASSERT(0 == level_stack_.back().valueCount % 2);   // Object has a Key without a Value
    if (!level_stack_.empty()) level_stack_.pop_back();
    return EndValue(WriteEndObject());
  }

  bool StartArray() {
    Prefix(kArrayType);
    level_stack_.push_back(Level(true));
    return WriteStartArray();
  }

  bool EndArray(SizeType = 0) {
    RAPIDJSON_ASSERT(!level_stack_.empty());
    RAPIDJSON_ASSERT(level_stack_.back().inArray);
    if (!level_stack_.empty()) level_stack_.pop_back();
    return EndValue(WriteEndArray());
  }

  //! Simpler but slower overloads.
  bool String(const Ch* const& str) { return String(str, internal::StrLen(str)); }
  bool Key(const Ch* const& str) { return Key(str, internal::StrLen(str)); }

  //! Write a raw, unvalidated JSON fragment as one value.
  bool RawValue(const Ch* json, size_t length, Type type) {
    RAPIDJSON_ASSERT(json != 0);
    Prefix(type);
    return EndValue(WriteRawValue(json, length));
  }

  //! Flush the output stream.
  void Flush() { os_->Flush(); }

protected:
  struct Level {
    Level(bool inArray_) : valueCount(0), inArray(inArray_) {}
    size_t valueCount;  //!< number of values in this level
    bool inArray;       //!< true if in array, otherwise in object
  };

  void PutStr(const char* s) { for (; *s; ++s) os_->Put(*s); }
  void PutStr(const std::string& s) { for (size_t i = 0; i < s.size(); i++) os_->Put(s[i]); }

  bool WriteNull() { PutStr("null"); return true; }
  bool WriteBool(bool b) { PutStr(b ? "true" : "false"); return true; }

  bool WriteInt(int i) { return WriteInt64(static_cast<int64_t>(i)); }
  bool WriteUint(unsigned u) { return WriteUint64(static_cast<uint64_t>(u)); }
  bool WriteInt64(int64_t i64) {
    uint64_t u = static_cast<uint64_t>(i64);
    if (i64 < 0) { os_->Put('-'); u = ~u + 1; }
    return WriteUint64(u);
  }
  bool WriteUint64(uint64_t u64) {
    char buf[24];
    char* p = buf + sizeof(buf);
    *--p = '\0';
    do { *--p = static_cast<char>('0' + (u64 % 10)); u64 /= 10; } while (u64 != 0);
    PutStr(p);
    return true;
  }

  bool WriteDouble(double d) {
    if (std::isnan(d) || std::isinf(d)) {
      if (!(writeFlags & kWriteNanAndInfFlag)) return false;
      if (std::isnan(d)) { PutStr("NaN"); return true; }
      if (std::signbit(d)) os_->Put('-');
      PutStr("Infinity");
      return true;
    }
    PutStr(internal::Dtoa(d, maxDecimalPlaces_));
    return true;
  }

  //! Escapes `"`, `\` and control characters < 0x20 (\b \f \n \r \t, the
  //! rest as \u00XX with upper-case hex); everything else, including '/' and
  //! bytes >= 0x80, is copied verbatim.  `length` is authoritative (embedded
  //! NULs are written as \u0000).
  bool WriteString(const Ch* str, SizeType length) {
    static const char hexDigits[] = "0123456789ABCDEF";
    os_->Put('"');
    for (SizeType i = 0; i < length; i++) {
      const unsigned char c = static_cast<unsigned char>(str[i]);
      switch (c) {
        case '"':  os_->Put('\\'); os_->Put('"');  break;
        case '\\': os_->Put('\\'); os_->Put('\\'); break;
        case '\b': os_->Put('\\'); os_->Put('b');  break;
        case '\f': os_->Put('\\'); os_->Put('f');  break;
        case '\n': os_->Put('\\'); os_->Put('n');  break;
        case '\r': os_->Put('\\'); os_->Put('r');  break;
        case '\t': os_->Put('\\'); os_->Put('t');  break;
        default:
          if (c < 0x20) {
            os_->Put('\\'); os_->Put('u'); os_->Put('0'); os_->Put('0');
            os_->Put(hexDigits[c >> 4]);
            os_->Put(hexDigits[c & 0xF]);
          }
          else {
            os_->Put(static_cast<Ch>(c));
          }
      }
    }
    os_->Put('"');
    return true;
  }

  bool WriteStartObject() { os_->Put('{'); return true; }
  bool WriteEndObject()   { os_->Put('}'); return true; }
  bool WriteStartArray()  { os_->Put('['); return true; }
  bool WriteEndArray()    { os_->Put(']'); return true; }

  bool WriteRawValue(const Ch* json, size_t length) {
    for (size_t i = 0; i < length; i++) os_->Put(json[i]);
    return true;
  }

  void Prefix(Type type) {
    (void)type;
    if (!level_stack_.empty()) {  // this value is not at root
      Level* level = &level_stack_.back();
      if (level->valueCount > 0) {
        if (level->inArray)
          os_->Put(',');  // add comma if it is not the first element in array
        else              // in object
          os_->Put((level->valueCount % 2 == 0) ? ',' : ':');
      }
      if (!level->inArray && level->valueCount % 2 == 0)
        RAPIDJSON_ASSERT(type == kStringType);  // if it's in object, then even number should be a name
      level->valueCount++;
    }
    else {
      RAPIDJSON_ASSERT(!hasRoot_);  // Should only have one and only one root.
      hasRoot_ = true;
    }
  }

  //! Flush the stream when the JSON text is complete.
  bool EndValue(bool ret) {
    if (level_stack_.empty())  // end of json text
      Flush();
    return ret;
  }

  OutputStream* os_;
  std::vector<Level> level_stack_;
  int maxDecimalPlaces_;
  bool hasRoot_;

private:
  // Prohibit copy constructor & assignment operator.
  Writer(const Writer&);
  Writer& operator=(const Writer&);
};

RAPIDJSON_NAMESPACE_END

#endif // RAPIDJSON_WRITER_H_
