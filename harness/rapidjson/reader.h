// Harness shim of rapidjson/reader.h (see rapidjson.h): a small recursive
// descent SAX parser that reproduces the event sequence, parse flags, error
// codes and stream-consumption behaviour of rapidjson::GenericReader for the
// features awkward-1.0 relies on.
#ifndef RAPIDJSON_READER_H_
#define RAPIDJSON_READER_H_

#include <cerrno>
#include <cmath>
#include <limits>
#include <string>

#include "rapidjson.h"
#include "stream.h"
#include "error/error.h"

RAPIDJSON_NAMESPACE_BEGIN

//! Same names and numeric values as the real library.  Flags that are only
//! performance hints (insitu, iterative, full precision, validate encoding)
//! are accepted and ignored.
enum ParseFlag {
  kParseNoFlags = 0,
  kParseInsituFlag = 1,            //!< ignored (always copies)
  kParseValidateEncodingFlag = 2,  //!< ignored (never validates UTF-8)
  kParseIterativeFlag = 4,         //!< ignored (always recursive)
  kParseStopWhenDoneFlag = 8,      //!< honoured
  kParseFullPrecisionFlag = 16,    //!< always on (strtod is used)
  kParseCommentsFlag = 32,         //!< honoured
  kParseNumbersAsStringsFlag = 64, //!< honoured (RawNumber events)
  kParseTrailingCommasFlag = 128,  //!< honoured
  kParseNanAndInfFlag = 256,       //!< honoured
  kParseEscapedApostropheFlag = 512, //!< honoured
  kParseDefaultFlags = kParseNoFlags
};

//! Default SAX handler: every event returns Default() (true), Key() forwards
//! to String(); CRTP-overridable exactly like the real one.
template <typename Encoding = UTF8<>, typename Derived = void>
struct BaseReaderHandler {
  typedef typename Encoding::Ch Ch;
  typedef typename internal::SelectIf<internal::IsSame<Derived, void>,
                                      BaseReaderHandler, Derived>::Type Override;

  bool Default() { return true; }
  bool Null() { return static_cast<Override&>(*this).Default(); }
  bool Bool(bool) { return static_cast<Override&>(*this).Default(); }
  bool Int(int) { return static_cast<Override&>(*this).Default(); }
  bool Uint(unsigned) { return static_cast<Override&>(*this).Default(); }
  bool Int64(int64_t) { return static_cast<Override&>(*this).Default(); }
  bool Uint64(uint64_t) { return static_cast<Override&>(*this).Default(); }
  bool Double(double) { return static_cast<Override&>(*this).Default(); }
  bool RawNumber(const Ch* str, SizeType len, bool copy) {
    return static_cast<Override&>(*this).String(str, len, copy);
  }
  bool String(const Ch*, SizeType, bool) { return static_cast<Override&>(*this).Default(); }
  bool StartObject() { return static_cast<Override&>(*this).Default(); }
  bool Key(const Ch* str, SizeType len, bool copy) {
    return static_cast<Override&>(*this).String(str, len, copy);
  }
  bool EndObject(SizeType) { return static_cast<Override&>(*this).Default(); }
  bool StartArray() { return static_cast<Override&>(*this).Default(); }
  bool EndArray(SizeType) { return static_cast<Override&>(*this).Default(); }
};

template <typename SourceEncoding, typename TargetEncoding, typename StackAllocator = CrtAllocator>
class GenericReader {
public:
  typedef typename SourceEncoding::Ch Ch;

  GenericReader(StackAllocator* = 0, size_t = 256) : parseResult_() {}

  //! Parse one JSON text from `is`, sending events to `handler`.
  //!
  //! Stream consumption matches the real library:
  //!  * leading whitespace is always consumed;
  //!  * with kParseStopWhenDoneFlag nothing after the root value is consumed
  //!    (not even whitespace), so concatenated documents can be read by
  //!    calling Parse repeatedly;
  //!  * without it, trailing whitespace is consumed and anything else is
  //!    kParseErrorDocumentRootNotSingular;
  //!  * an empty (or whitespace-only) stream is kParseErrorDocumentEmpty.
  template <unsigned parseFlags, typename InputStream, typename Handler>
  ParseResult Parse(InputStream& is, Handler& handler) {
    parseResult_.Clear();
    SkipWhitespaceAndComments<parseFlags>(is);
    if (!HasParseError()) {
      if (is.Peek() == '\0') {
        SetError(kParseErrorDocumentEmpty, is.Tell());
      }
      else {
        ParseValue<parseFlags>(is, handler);
        if (!HasParseError() && !(parseFlags & kParseStopWhenDoneFlag)) {
          SkipWhitespaceAndComments<parseFlags>(is);
          if (!HasParseError() && is.Peek() != '\0') {
            SetError(kParseErrorDocumentRootNotSingular, is.Tell());
          }
        }
      }
    }
    return parseResult_;
  }

  template <typename InputStream, typename Handler>
  ParseResult Parse(InputStream& is, Handler& handler) {
    return Parse<kParseDefaultFlags>(is, handler);
  }

  bool HasParseError() const { return parseResult_.IsError(); }
  ParseErrorCode GetParseErrorCode() const { return parseResult_.Code(); }
  size_t GetErrorOffset() const { return parseResult_.Offset(); }

protected:
  void SetParseError(ParseErrorCode code, size_t offset) { parseResult_.Set(code, offset); }

private:
  GenericReader(const GenericReader&);
  GenericReader& operator=(const GenericReader&);

  void SetError(ParseErrorCode code, size_t offset) {
    RAPIDJSON_ASSERT(!HasParseError());
    parseResult_.Set(code, offset);
  }

  template <typename InputStream>
  static bool Consume(InputStream& is, char expect) {
    if (is.Peek() == expect) { is.Take(); return true; }
    return false;
  }

  template <typename InputStream>
  static void SkipWhitespace(InputStream& is) {
    for (;;) {
      char c = is.Peek();
      if (c == ' ' || c == '\n' || c == '\r' || c == '\t') is.Take();
      else break;
    }
  }

  template <unsigned parseFlags, typename InputStream>
  void SkipWhitespaceAndComments(InputStream& is) {
    SkipWhitespace(is);
    if (parseFlags & kParseCommentsFlag) {
      while (Consume(is, '/')) {
        if (Consume(is, '*')) {
          for (;;) {
            if (is.Peek() == '\0') {
              SetError(kParseErrorUnspecificSyntaxError, is.Tell());
              return;
            }
            else if (Consume(is, '*')) {
              if (Consume(is, '/')) break;
            }
            else is.Take();
          }
        }
        else if (Consume(is, '/')) {
          while (is.Peek() != '\0' && is.Take() != '\n') {}
        }
        else {
          SetError(kParseErrorUnspecificSyntaxError, is.Tell());
          return;
        }
        SkipWhitespace(is);
      }
    }
  }

  template <unsigned parseFlags, typename InputStream, typename Handler>
  void ParseValue(InputStream& is, Handler& handler) {
    switch (is.Peek()) {
      case 'n': ParseLiteral(is, handler, "null", 0); break;
      case 't': ParseLiteral(is, handler, "true", 1); break;
      case 'f': ParseLiteral(is, handler, "false", 2); break;
      case '"': ParseString<parseFlags>(is, handler, false); break;
      case '{': ParseObject<parseFlags>(is, handler); break;
      case '[': ParseArray<parseFlags>(is, handler); break;
      default:  ParseNumber<parseFlags>(is, handler); break;
    }
  }

  // which: 0 = null, 1 = true, 2 = false
  template <typename InputStream, typename Handler>
  void ParseLiteral(InputStream& is, Handler& handler, const char* word, int which) {
    is.Take();  // first letter was already checked by the caller
    for (const char* p = word + 1; *p; ++p) {
      if (!Consume(is, *p)) {
        SetError(kParseErrorValueInvalid, is.Tell());
        return;
      }
    }
    bool ok = (which == 0) ? handler.Null() : handler.Bool(which == 1);
    if (!ok) SetError(kParseErrorTermination, is.Tell());
  }

  template <unsigned parseFlags, typename InputStream, typename Handler>
  void ParseObject(InputStream& is, Handler& handler) {
    RAPIDJSON_ASSERT(is.Peek() == '{');
    is.Take();
    if (!handler.StartObject()) { SetError(kParseErrorTermination, is.Tell()); return; }

    SkipWhitespaceAndComments<parseFlags>(is);
    if (HasParseError()) return;

    if (Consume(is, '}')) {
      if (!handler.EndObject(0)) SetError(kParseErrorTermination, is.Tell());
      return;
    }

    for (SizeType memberCount = 0;;) {
      if (is.Peek() != '"') { SetError(kParseErrorObjectMissName, is.Tell()); return; }

      ParseString<parseFlags>(is, handler, true);
      if (HasParseError()) return;

      SkipWhitespaceAndComments<parseFlags>(is);
      if (HasParseError()) return;

      if (!Consume(is, ':')) { SetError(kParseErrorObjectMissColon, is.Tell()); return; }

      SkipWhitespaceAndComments<parseFlags>(is);
      if (HasParseError()) return;

      ParseValue<parseFlags>(is, handler);
      if (HasParseError()) return;

      SkipWhitespaceAndComments<parseFlags>(is);
      if (HasParseError()) return;

      ++memberCount;

      switch (is.Peek()) {
        case ',':
          is.Take();
          SkipWhitespaceAndComments<parseFlags>(is);
          if (HasParseError()) return;
          break;
        case '}':
          is.Take();
          if (!handler.EndObject(memberCount)) SetError(kParseErrorTermination, is.Tell());
          return;
        default:
          SetError(kParseErrorObjectMissCommaOrCurlyBracket, is.Tell());
          return;
      }

      if (parseFlags & kParseTrailingCommasFlag) {
        if (is.Peek() == '}') {
          if (!handler.EndObject(memberCount)) { SetError(kParseErrorTermination, is.Tell()); return; }
          is.Take();
          return;
        }
      }
    }
  }

  template <unsigned parseFlags, typename InputStream, typename Handler>
  void ParseArray(InputStream& is, Handler& handler) {
    RAPIDJSON_ASSERT(is.Peek() == '[');
    is.Take();
    if (!handler.StartArray()) { SetError(kParseErrorTermination, is.Tell()); return; }

    SkipWhitespaceAndComments<parseFlags>(is);
    if (HasParseError()) return;

    if (Consume(is, ']')) {
      if (!handler.EndArray(0)) SetError(kParseErrorTermination, is.Tell());
      return;
    }

    for (SizeType elementCount = 0;;) {
      ParseValue<parseFlags>(is, handler);
      if (HasParseError()) return;

      ++elementCount;
      SkipWhitespaceAndComments<parseFlags>(is);
      if (HasParseError()) return;

      if (Consume(is, ',')) {
        SkipWhitespaceAndComments<parseFlags>(is);
        if (HasParseError()) return;
      }
      else if (Consume(is, ']')) {
        if (!handler.EndArray(elementCount)) SetError(kParseErrorTermination, is.Tell());
        return;
      }
      else {
        SetError(kParseErrorArrayMissCommaOrSquareBracket, is.Tell());
        return;
      }

      if (parseFlags & kParseTrailingCommasFlag) {
        if (is.Peek() == ']') {
          if (!handler.EndArray(elementCount)) { SetError(kParseErrorTermination, is.Tell()); return; }
          is.Take();
          return;
        }
      }
    }
  }

  template <typename InputStream>
  unsigned ParseHex4(InputStream& is, size_t escapeOffset) {
    unsigned codepoint = 0;
    for (int i = 0; i < 4; i++) {
      char c = is.Peek();
      codepoint <<= 4;
      if (c >= '0' && c <= '9') codepoint += static_cast<unsigned>(c - '0');
      else if (c >= 'A' && c <= 'F') codepoint += static_cast<unsigned>(c - 'A' + 10);
      else if (c >= 'a' && c <= 'f') codepoint += static_cast<unsigned>(c - 'a' + 10);
      else {
        SetError(kParseErrorStringUnicodeEscapeInvalidHex, escapeOffset);
        return 0;
      }
      is.Take();
    }
    return codepoint;
  }

  static void EncodeUTF8(std::string& out, unsigned codepoint) {
    if (codepoint <= 0x7F) {
      out.push_back(static_cast<char>(codepoint & 0xFF));
    }
    else if (codepoint <= 0x7FF) {
      out.push_back(static_cast<char>(0xC0 | ((codepoint >> 6) & 0xFF)));
      out.push_back(static_cast<char>(0x80 | (codepoint & 0x3F)));
    }
    else if (codepoint <= 0xFFFF) {
      out.push_back(static_cast<char>(0xE0 | ((codepoint >> 12) & 0xFF)));
      out.push_back(static_cast<char>(0x80 | ((codepoint >> 6) & 0x3F)));
      out.push_back(static_cast<char>(0x80 | (codepoint & 0x3F)));
    }
    else {
      RAPIDJSON_ASSERT(codepoint <= 0x10FFFF);
      out.push_back(static_cast<char>(0xF0 | ((codepoint >> 18) & 0xFF)));
      out.push_back(static_cast<char>(0x80 | ((codepoint >> 12) & 0x3F)));
      out.push_back(static_cast<char>(0x80 | ((codepoint >> 6) & 0x3F)));
      out.push_back(static_cast<char>(0x80 | (codepoint & 0x3F)));
    }
  }

  //! Parses a string (or an object key).  The pointer handed to the handler
  //! is NUL-terminated and `length` excludes that terminator, as in the real
  //! library; the string may contain embedded NULs (from \u0000).
  template <unsigned parseFlags, typename InputStream, typename Handler>
  void ParseString(InputStream& is, Handler& handler, bool isKey) {
    RAPIDJSON_ASSERT(is.Peek() == '"');
    is.Take();
    std::string buf;
    for (;;) {
      char c = is.Peek();
      if (c == '\\') {
        size_t escapeOffset = is.Tell();
        is.Take();
        char e = is.Peek();
        char mapped = 0;
        switch (e) {
          case '"':  mapped = '"';  break;
          case '/':  mapped = '/';  break;
          case '\\': mapped = '\\'; break;
          case 'b':  mapped = '\b'; break;
          case 'f':  mapped = '\f'; break;
          case 'n':  mapped = '\n'; break;
          case 'r':  mapped = '\r'; break;
          case 't':  mapped = '\t'; break;
          default: break;
        }
        if (mapped != 0) {
          is.Take();
          buf.push_back(mapped);
        }
        else if ((parseFlags & kParseEscapedApostropheFlag) && e == '\'') {
          is.Take();
          buf.push_back('\'');
        }
        else if (e == 'u') {
          is.Take();
          unsigned codepoint = ParseHex4(is, escapeOffset);
          if (HasParseError()) return;
          if (codepoint >= 0xD800 && codepoint <= 0xDFFF) {
            // high surrogate must be followed by an escaped low surrogate
            if (codepoint <= 0xDBFF) {
              if (!Consume(is, '\\') || !Consume(is, 'u')) {
                SetError(kParseErrorStringUnicodeSurrogateInvalid, escapeOffset);
                return;
              }
              unsigned codepoint2 = ParseHex4(is, escapeOffset);
              if (HasParseError()) return;
              if (codepoint2 < 0xDC00 || codepoint2 > 0xDFFF) {
                SetError(kParseErrorStringUnicodeSurrogateInvalid, escapeOffset);
                return;
              }
              codepoint = (((codepoint - 0xD800) << 10) | (codepoint2 - 0xDC00)) + 0x10000;
            }
            else {
              // lone low surrogate
              SetError(kParseErrorStringUnicodeSurrogateInvalid, escapeOffset);
              return;
            }
          }
          EncodeUTF8(buf, codepoint);
        }
        else {
          SetError(kParseErrorStringEscapeInvalid, escapeOffset);
          return;
        }
      }
      else if (c == '"') {
        is.Take();
        break;
      }
      else if (static_cast<unsigned>(c) < 0x20) {
        // RFC 4627: unescaped = %x20-21 / %x23-5B / %x5D-10FFFF
        if (c == '\0') SetError(kParseErrorStringMissQuotationMark, is.Tell());
        else SetError(kParseErrorStringInvalidEncoding, is.Tell());
        return;
      }
      else {
        buf.push_back(is.Take());
      }
    }

    const SizeType length = static_cast<SizeType>(buf.size());
    bool ok = isKey ? handler.Key(buf.c_str(), length, true)
                    : handler.String(buf.c_str(), length, true);
    if (!ok) SetError(kParseErrorTermination, is.Tell());
  }

  //! Number parsing.  Event selection follows the real library:
  //!   negative:      Int if >= -2^31, else Int64 if >= -2^63, else Double
  //!   non-negative:  Uint if < 2^32, else Uint64 if < 2^64, else Double
  //!   anything with a fraction or exponent: Double
  //! Doubles are converted with strtod (correctly rounded), whereas the real
  //! library without kParseFullPrecisionFlag may be off by a few ULP for long
  //! mantissas/large exponents.
  template <unsigned parseFlags, typename InputStream, typename Handler>
  void ParseNumber(InputStream& is, Handler& handler) {
    const size_t startOffset = is.Tell();
    std::string tok;

    bool minus = Consume(is, '-');
    if (minus) tok.push_back('-');

    uint64_t u = 0;
    bool useDouble = false;
    bool useNanOrInf = false;
    double d = 0.0;

    const uint64_t limit = minus ? (static_cast<uint64_t>(1) << 63)
                                 : std::numeric_limits<uint64_t>::max();

    if (is.Peek() == '0') {
      tok.push_back(is.Take());
    }
    else if (is.Peek() >= '1' && is.Peek() <= '9') {
      while (is.Peek() >= '0' && is.Peek() <= '9') {
        char c = is.Take();
        tok.push_back(c);
        if (!useDouble) {
          uint64_t digit = static_cast<uint64_t>(c - '0');
          if (u > (limit - digit) / 10) useDouble = true;  // does not fit 64 bits
          else u = u * 10 + digit;
        }
      }
    }
    else if ((parseFlags & kParseNanAndInfFlag) && (is.Peek() == 'I' || is.Peek() == 'N')) {
      if (Consume(is, 'N')) {
        if (Consume(is, 'a') && Consume(is, 'N')) {
          d = std::numeric_limits<double>::quiet_NaN();
          useNanOrInf = true;
        }
      }
      else if (Consume(is, 'I')) {
        if (Consume(is, 'n') && Consume(is, 'f')) {
          d = (minus ? -std::numeric_limits<double>::infinity()
                     : std::numeric_limits<double>::infinity());
          useNanOrInf = true;
          if (is.Peek() == 'i' && !(Consume(is, 'i') && Consume(is, 'n') && Consume(is, 'i') &&
                                    Consume(is, 't') && Consume(is, 'y'))) {
            SetError(kParseErrorValueInvalid, is.Tell());
            return;
          }
        }
      }
      if (!useNanOrInf) {
        SetError(kParseErrorValueInvalid, is.Tell());
        return;
      }
    }
    else {
      SetError(kParseErrorValueInvalid, is.Tell());
      return;
    }

    if (!useNanOrInf) {
      // fraction
      if (is.Peek() == '.') {
        tok.push_back(is.Take());
        if (!(is.Peek() >= '0' && is.Peek() <= '9')) {
          SetError(kParseErrorNumberMissFraction, is.Tell());
          return;
        }
        while (is.Peek() >= '0' && is.Peek() <= '9') tok.push_back(is.Take());
        useDouble = true;
      }
      // exponent
      if (is.Peek() == 'e' || is.Peek() == 'E') {
        is.Take();
        tok.push_back('e');
        if (is.Peek() == '+' || is.Peek() == '-') tok.push_back(is.Take());
        if (!(is.Peek() >= '0' && is.Peek() <= '9')) {
          SetError(kParseErrorNumberMissExponent, is.Tell());
          return;
        }
        while (is.Peek() >= '0' && is.Peek() <= '9') tok.push_back(is.Take());
        useDouble = true;
      }
    }

    bool cont = true;
    if ((parseFlags & kParseNumbersAsStringsFlag) && !useNanOrInf) {
      cont = handler.RawNumber(tok.c_str(), static_cast<SizeType>(tok.size()), true);
    }
    else if (useNanOrInf) {
      cont = handler.Double(d);
    }
    else if (useDouble) {
      d = std::strtod(tok.c_str(), 0);   // "C" locale assumed
      if (d == HUGE_VAL || d == -HUGE_VAL) {
        SetError(kParseErrorNumberTooBig, startOffset);
        return;
      }
      cont = handler.Double(d);
    }
    else if (minus) {
      if (u <= (static_cast<uint64_t>(1) << 31))
        cont = handler.Int(static_cast<int32_t>(~static_cast<uint32_t>(u) + 1));
      else
        cont = handler.Int64(static_cast<int64_t>(~u + 1));
    }
    else {
      if (u <= 0xFFFFFFFFu)
        cont = handler.Uint(static_cast<unsigned>(u));
      else
        cont = handler.Uint64(u);
    }
    if (!cont) SetError(kParseErrorTermination, startOffset);
  }

  ParseResult parseResult_;
};

typedef GenericReader<UTF8<>, UTF8<> > Reader;

RAPIDJSON_NAMESPACE_END

#endif // RAPIDJSON_READER_H_
