// Stand-alone self test of the rapidjson shim in /verif/harness/rapidjson
// (does not need libawkward):
//
//   g++ -std=c++11 -I/verif/harness /verif/harness/rapidjson_selftest.cpp -o /tmp/rj_selftest && /tmp/rj_selftest
//
// or through the harness:
//
//   /verif/harness/run_demo.sh /repo /tmp/awk-harness-build /verif/harness/rapidjson_selftest.cpp
//
// The expected strings are what the REAL rapidjson produces for the same
// calls (written from knowledge of its source; the real library is not
// available on this machine to cross-check).
#include "rapidjson/document.h"
#include "rapidjson/reader.h"
#include "rapidjson/writer.h"
#include "rapidjson/prettywriter.h"
#include "rapidjson/stringbuffer.h"
#include "rapidjson/filereadstream.h"
#include "rapidjson/filewritestream.h"
#include "rapidjson/error/en.h"
#include <cmath>
#include <iostream>
#include <string>
namespace rj = rapidjson;
static int fails = 0;
#define CHECK(c) do { if (!(c)) { std::cout << "FAIL line " << __LINE__ << ": " #c << std::endl; fails++; } } while (0)

static std::string dump(const rj::Value& v, bool pretty = false) {
  rj::StringBuffer sb;
  if (pretty) { rj::PrettyWriter<rj::StringBuffer> w(sb); v.Accept(w); }
  else { rj::Writer<rj::StringBuffer> w(sb); v.Accept(w); }
  return sb.GetString();
}
// parse (with kParseNanAndInfFlag, as libawkward does) and write back compactly
static std::string rt(const char* s) {
  rj::Document d;
  d.Parse<rj::kParseNanAndInfFlag>(s);
  if (d.HasParseError())
    return std::string("ERR:") + rj::GetParseError_En(d.GetParseError()) + "@" + std::to_string(d.GetErrorOffset());
  return dump(d);
}
static std::string dbl(double x, int maxdec = -1) {
  rj::StringBuffer sb;
  rj::Writer<rj::StringBuffer> w(sb);
  if (maxdec >= 0) w.SetMaxDecimalPlaces(maxdec);
  w.Double(x);
  return sb.GetString();
}
static bool eq(const char* a, const char* b) {
  rj::Document x, y;
  x.Parse<rj::kParseNanAndInfFlag>(a);
  y.Parse<rj::kParseNanAndInfFlag>(b);
  return x == y;
}

// logs SAX events: i=Int u=Uint I=Int64 U=Uint64 d=Double
struct Ev : rj::BaseReaderHandler<rj::UTF8<>, Ev> {
  std::string log;
  bool Null() { log += "N "; return true; }
  bool Bool(bool b) { log += b ? "T " : "F "; return true; }
  bool Int(int i) { log += "i" + std::to_string(i) + " "; return true; }
  bool Uint(unsigned i) { log += "u" + std::to_string(i) + " "; return true; }
  bool Int64(int64_t i) { log += "I" + std::to_string(i) + " "; return true; }
  bool Uint64(uint64_t i) { log += "U" + std::to_string(i) + " "; return true; }
  bool Double(double d) { log += "d" + dbl(d) + " "; return true; }
  bool String(const char* s, rj::SizeType n, bool) { log += "s(" + std::string(s, n) + ") "; return true; }
  bool Key(const char* s, rj::SizeType n, bool) { log += "k(" + std::string(s, n) + ") "; return true; }
  bool StartObject() { log += "{ "; return true; }
  bool EndObject(rj::SizeType n) { log += "}" + std::to_string(n) + " "; return true; }
  bool StartArray() { log += "[ "; return true; }
  bool EndArray(rj::SizeType n) { log += "]" + std::to_string(n) + " "; return true; }
};

int main() {
  // ---- parse + write round trips, escapes, surrogate pairs
  CHECK(rt("[1, 2.5, -3, true, false, null, \"a\\n\\u00e9\\ud83d\\ude00\\\"\", {\"k\": [ ] , \"o\":{}}]") ==
        "[1,2.5,-3,true,false,null,\"a\\n\xc3\xa9\xf0\x9f\x98\x80\\\"\",{\"k\":[],\"o\":{}}]");
  CHECK(rt("  \"x\"  ") == "\"x\"");
  CHECK(rt("\"\\u0000x\"") == "\"\\u0000x\"");
  // ---- error codes and offsets
  CHECK(rt("") == "ERR:The document is empty.@0");
  CHECK(rt("1 2") == "ERR:The document root must not be followed by other values.@2");
  CHECK(rt("[1,]") == "ERR:Invalid value.@3");
  CHECK(rt("[1 2]") == "ERR:Missing a comma or ']' after an array element.@3");
  CHECK(rt("{\"a\" 1}") == "ERR:Missing a colon after a name of object member.@5");
  CHECK(rt("{a:1}") == "ERR:Missing a name for object member.@1");
  CHECK(rt("{\"a\":1 \"b\"}") == "ERR:Missing a comma or '}' after an object member.@7");
  CHECK(rt("\"abc") == "ERR:Missing a closing quotation mark in string.@4");
  CHECK(rt("\"\\x\"") == "ERR:Invalid escape character in string.@1");
  CHECK(rt("\"\\u12G4\"") == "ERR:Incorrect hex digit after \\u escape in string.@1");
  CHECK(rt("\"\\ud800\"") == "ERR:The surrogate pair in string is invalid.@1");
  CHECK(rt("1.") == "ERR:Miss fraction part in number.@2");
  CHECK(rt("1e") == "ERR:Miss exponent in number.@2");
  CHECK(rt("1e999") == "ERR:Number too big to be stored in double.@0");
  CHECK(rt("nul") == "ERR:Invalid value.@3");
  CHECK(rt("01") == "ERR:The document root must not be followed by other values.@1");
  // ---- NaN/Inf: parsed with the flag, but the default Writer refuses them
  CHECK(rt("NaN") == "");
  CHECK(rt("[1,NaN,2]") == "[1,");   // separator written, Double() returns false, Accept() stops
  { rj::Document d; d.Parse("NaN"); CHECK(d.HasParseError() && d.IsNull()); }
  { rj::Document d; d.Parse<rj::kParseNanAndInfFlag>("[NaN, Infinity, -Infinity, Inf, -Inf]");
    CHECK(!d.HasParseError());
    CHECK(d.Size() == 5 && std::isnan(d[0].GetDouble()) && std::isinf(d[1].GetDouble()) && d[2].GetDouble() < 0 &&
          d[4].GetDouble() < 0 && d[3].GetDouble() > 0); }
  { rj::StringBuffer sb; rj::Writer<rj::StringBuffer, rj::UTF8<>, rj::UTF8<>, rj::CrtAllocator, rj::kWriteNanAndInfFlag> w(sb);
    w.StartArray(); w.Double(NAN); w.Double(INFINITY); w.Double(-INFINITY); w.EndArray();
    CHECK(std::string(sb.GetString()) == "[NaN,Infinity,-Infinity]"); }
  // ---- integer range boundaries
  CHECK(rt("18446744073709551615") == "18446744073709551615");
  CHECK(rt("18446744073709551616") == "18446744073709552000.0");
  CHECK(rt("-9223372036854775808") == "-9223372036854775808");
  CHECK(rt("-9223372036854775809") == "-9223372036854776000.0");
  CHECK(rt("1E+2") == "100.0");
  CHECK(rt("-0") == "0");
  CHECK(rt("-0.0") == "-0.0");
  // ---- double formatting (Prettify rules of rapidjson's dtoa)
  CHECK(dbl(1.1) == "1.1"); CHECK(dbl(0.0) == "0.0"); CHECK(dbl(-0.0) == "-0.0"); CHECK(dbl(100) == "100.0");
  CHECK(dbl(1e21) == "1e21"); CHECK(dbl(1e20) == "100000000000000000000.0");
  CHECK(dbl(1.5e300) == "1.5e300"); CHECK(dbl(1e-5) == "0.00001"); CHECK(dbl(1e-6) == "0.000001");
  CHECK(dbl(1e-7) == "1e-7"); CHECK(dbl(1.234e-10) == "1.234e-10");
  CHECK(dbl(0.1 + 0.2) == "0.30000000000000004"); CHECK(dbl(5e-324) == "5e-324");
  CHECK(dbl(1.7976931348623157e308) == "1.7976931348623157e308");
  CHECK(dbl(123456.789) == "123456.789"); CHECK(dbl(-2.5) == "-2.5");
  // SetMaxDecimalPlaces truncates (never rounds) and keeps at least one decimal
  CHECK(dbl(1.2345, 2) == "1.23"); CHECK(dbl(1.102, 2) == "1.1"); CHECK(dbl(1.002, 2) == "1.0");
  CHECK(dbl(0.123, 2) == "0.12"); CHECK(dbl(0.102, 2) == "0.1"); CHECK(dbl(0.001, 2) == "0.0"); CHECK(dbl(1e-10, 3) == "0.0");
  CHECK(dbl(3.3, 1) == "3.3"); CHECK(dbl(9.99, 1) == "9.9"); CHECK(dbl(123.0, 1) == "123.0");
  CHECK(dbl(2.0000000000000004, 1) == "2.0");
  CHECK(dbl(NAN) == "");
  // ---- Value::operator==
  CHECK(eq("{\"a\":1,\"b\":[1,2]}", "{\"b\":[1,2], \"a\":1}")); CHECK(!eq("{\"a\":1}", "{\"a\":1,\"b\":2}"));
  CHECK(eq("1", "1.0")); CHECK(!eq("NaN", "NaN")); CHECK(eq("\"x\"", "\"x\"")); CHECK(!eq("\"x\"", "\"y\""));
  CHECK(!eq("true", "false")); CHECK(eq("null", "null")); CHECK(!eq("null", "0")); CHECK(!eq("[1,2]", "[2,1]"));
  CHECK(eq("-5", "-5")); CHECK(!eq("5", "-5"));
  CHECK(eq("nonsense", "null"));  // a failed parse leaves the Document Null
  // ---- Is*/Get* predicates are value based
  { rj::Document d; d.Parse("[5,-5,3000000000,5000000000,-5000000000,18446744073709551615,1.5,\"s\"]");
    CHECK(d[0].IsInt() && d[0].IsUint() && d[0].IsInt64() && d[0].IsUint64() && !d[0].IsDouble() && d[0].IsNumber());
    CHECK(d[1].IsInt() && !d[1].IsUint() && d[1].IsInt64() && !d[1].IsUint64());
    CHECK(!d[2].IsInt() && d[2].IsUint() && d[2].IsInt64() && d[2].IsUint64());
    CHECK(!d[3].IsInt() && !d[3].IsUint() && d[3].IsInt64() && d[3].IsUint64());
    CHECK(!d[4].IsInt() && !d[4].IsUint() && d[4].IsInt64() && !d[4].IsUint64());
    CHECK(!d[5].IsInt64() && d[5].IsUint64() && d[5].GetUint64() == 18446744073709551615ULL);
    CHECK(d[6].IsDouble() && !d[6].IsInt() && d[6].GetDouble() == 1.5);
    CHECK(d[7].IsString() && std::string(d[7].GetString()) == "s" && d[7].GetStringLength() == 1);
    CHECK(d[0].GetInt64() == 5 && d[1].GetInt() == -5 && d[4].GetInt64() == -5000000000LL && d[2].GetUint() == 3000000000u);
    int n = 0; for (auto& x : d.GetArray()) { (void)x; n++; } CHECK(n == 8);
    for (rj::SizeType i = 0; i < d.Size(); i++) (void)d[i];
  }
  // ---- object access the way Form::fromjson does it, and pretty printing
  { rj::Document d; d.Parse("{\"class\":\"NumpyArray\",\"parameters\":{\"__array__\":\"string\",\"n\":[1,2.5,{\"x\":null}]},\"z\":0}");
    const rj::Value& j = d;
    CHECK(j.IsObject() && j.HasMember("class") && j["class"].IsString() && !j.HasMember("nope") && j.MemberCount() == 3);
    std::string s;
    for (auto& pair : j["parameters"].GetObject()) {
      rj::StringBuffer sb; rj::Writer<rj::StringBuffer> w(sb); pair.value.Accept(w);
      s += std::string(pair.name.GetString()) + "=" + sb.GetString() + ";";
    }
    CHECK(s == "__array__=\"string\";n=[1,2.5,{\"x\":null}];");
    auto it = j.FindMember("z"); CHECK(it != j.MemberEnd() && it->value.GetInt() == 0); CHECK(j.FindMember("q") == j.MemberEnd());
    for (auto m = j.MemberBegin(); m != j.MemberEnd(); ++m) (void)m->name.GetString();
    CHECK(dump(d, true) ==
          "{\n    \"class\": \"NumpyArray\",\n    \"parameters\": {\n        \"__array__\": \"string\",\n"
          "        \"n\": [\n            1,\n            2.5,\n            {\n                \"x\": null\n"
          "            }\n        ]\n    },\n    \"z\": 0\n}");
  }
  CHECK(dump(rj::Document().Parse("[[],{}]"), true) == "[\n    [],\n    {}\n]");
  // ---- string escaping in the writer (length is authoritative, '/' and UTF-8 untouched)
  { rj::StringBuffer sb; rj::Writer<rj::StringBuffer> w(sb);
    std::string x("a\"b\\c/\n\t\x01\x1f\0z\xc3\xa9", 14);
    w.String(x.c_str(), (rj::SizeType)x.length());
    CHECK(std::string(sb.GetString()) == "\"a\\\"b\\\\c/\\n\\t\\u0001\\u001F\\u0000z\xc3\xa9\""); }
  // ---- SAX event types and concatenated documents with kParseStopWhenDoneFlag
  { Ev h; rj::Reader r; rj::StringStream ss("{\"a\":[1,-1,4294967296,-2147483649,1.0,\"s\"]}  [true] \n 7 \n");
    int docs = 0; bool last = true;
    while (ss.Peek() != 0) { last = r.Parse<rj::kParseStopWhenDoneFlag>(ss, h); if (last) docs++; h.log += "| "; }
    CHECK(docs == 3); CHECK(!last && r.GetParseErrorCode() == rj::kParseErrorDocumentEmpty);
    CHECK(h.log == "{ k(a) [ u1 i-1 U4294967296 I-2147483649 d1.0 s(s) ]6 }1 | [ T ]1 | u7 | | ");
  }
  { Ev h; rj::Reader r; rj::StringStream ss("[1,2"); bool ok = r.Parse<rj::kParseStopWhenDoneFlag>(ss, h);
    CHECK(!ok && ss.Peek() == 0 && r.HasParseError()); }
  { Ev h; rj::Reader r; rj::StringStream ss("/*c*/[1,//x\n2,]");
    rj::ParseResult ok = r.Parse<rj::kParseCommentsFlag | rj::kParseTrailingCommasFlag>(ss, h);
    CHECK(ok); CHECK(h.log == "[ u1 u2 ]2 "); }
  // ---- file streams with tiny buffers (forces refills / intermediate flushes)
  { FILE* f = std::tmpfile();
    { char buf[8]; rj::FileWriteStream os(f, buf, sizeof(buf));
      rj::PrettyWriter<rj::FileWriteStream> w(os);
      rj::Document d; d.Parse("{\"a\":[1,2,3],\"b\":\"long string value here\"}"); d.Accept(w);
      os.Put('\n');
      rj::Writer<rj::FileWriteStream> w2(os);
      rj::Document e; e.Parse("[1.5,null]"); e.Accept(w2); }   // writers flush at end of root
    std::rewind(f);
    char buf[5]; rj::FileReadStream is(f, buf, sizeof(buf)); Ev h; rj::Reader r; int docs = 0;
    while (is.Peek() != 0) { if (r.Parse<rj::kParseStopWhenDoneFlag>(is, h)) docs++; }
    CHECK(docs == 2); CHECK(h.log == "{ k(a) [ u1 u2 u3 ]3 k(b) s(long string value here) }2 [ d1.5 N ]2 ");
    std::fclose(f); }
  std::cout << (fails ? "SHIM TESTS FAILED" : "shim tests ok") << std::endl;
  return fails != 0;
}
