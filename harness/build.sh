#!/usr/bin/env bash
# Build the pure C++ part of awkward-1.0 (src/cpu-kernels + src/libawkward,
# i.e. everything except src/python) into one static library, using the
# rapidjson shim in this directory instead of the (missing) real rapidjson.
#
#   usage: build.sh <repo-dir> <build-dir>
#
#   <repo-dir>   /repo or a git worktree of it (read only; nothing is written there)
#   <build-dir>  scratch directory, e.g. /tmp/awk-harness-build (created if missing);
#                must not be inside <repo-dir> or /verif
#
# Result: <build-dir>/libawkward-static.a   (kernels + libawkward together)
#         <build-dir>/gen/awkward/kernels.h (generated from <repo-dir>/kernel-specification.yml,
#                                            first on the include path)
#         <build-dir>/obj/**.o, **.d        (objects + dependency files)
#
# Environment knobs (all optional):
#   CXX=g++|clang++     compiler                    (default: g++, else clang++)
#   OPT=-O1             optimisation flag(s)        (default: -O1)
#   EXTRA_CXXFLAGS=...  appended to the compile flags (e.g. "-g -fsanitize=address" or "-DNDEBUG")
#   JOBS=16             parallel compile jobs       (default: 16)
#   PYTHON=...          interpreter for gen_kernels_h.py (default: /venv/bin/python, python3, python)
#   VERBOSE=1           echo every compiler command
#
# The build is incremental (make + -MMD dependency files): only sources whose
# own text or whose included headers changed are recompiled; changing the
# compiler, the flags or <repo-dir> recompiles everything.
set -euo pipefail

usage() { sed -n '2,27p' "$0" | sed 's/^# \{0,1\}//'; exit 2; }
[ $# -eq 2 ] || usage

HARNESS="$(cd "$(dirname "${BASH_SOURCE[0]}")" && pwd -P)"
[ -d "$1" ] || { echo "build.sh: repo dir '$1' does not exist" >&2; exit 2; }
REPO="$(cd "$1" && pwd -P)"
# canonicalise WITHOUT creating anything yet (the location is checked first)
BUILD="$(realpath -m -- "$2" 2>/dev/null || readlink -m -- "$2")"
[ -n "$BUILD" ] || { echo "build.sh: cannot resolve build dir '$2'" >&2; exit 2; }

case "$REPO$BUILD$HARNESS" in
  *[[:space:]]*) echo "build.sh: paths with whitespace are not supported" >&2; exit 2 ;;
esac
case "$BUILD/" in
  "$REPO"/*|/verif/*|/repo/*)
    echo "build.sh: refusing to build inside the repository or /verif: $BUILD" >&2; exit 2 ;;
esac
mkdir -p "$BUILD"
for d in src/cpu-kernels src/libawkward include/awkward; do
  [ -d "$REPO/$d" ] || { echo "build.sh: $REPO/$d not found (not an awkward-1.0 checkout?)" >&2; exit 2; }
done

if [ -z "${CXX:-}" ]; then
  if command -v g++ >/dev/null 2>&1; then CXX=g++
  elif command -v clang++ >/dev/null 2>&1; then CXX=clang++
  else echo "build.sh: neither g++ nor clang++ found" >&2; exit 2; fi
fi
OPT="${OPT:--O1}"
JOBS="${JOBS:-16}"
EXTRA_CXXFLAGS="${EXTRA_CXXFLAGS:-}"

VERSION_INFO="1.4.0"
if [ -f "$REPO/VERSION_INFO" ]; then VERSION_INFO="$(tr -d '[:space:]' < "$REPO/VERSION_INFO")"; fi

START_NS=$(date +%s%N)
mkdir -p "$BUILD/gen/awkward" "$BUILD/obj"

# ---------------------------------------------------------------- kernels.h
# include/awkward/kernels.h is generated and git-ignored, so a fresh worktree
# does not have it (and an old checkout may have a stale one).  Always generate
# our own copy from this repo-dir's kernel-specification.yml; -I$BUILD/gen
# comes first so it shadows <repo-dir>/include/awkward/kernels.h.
GEN="$BUILD/gen/awkward/kernels.h"
GENSTAMP="$BUILD/gen/kernels.h.stamp"   # holds the repo dir it was generated from
SPEC="$REPO/kernel-specification.yml"
generated=no
if [ -f "$GEN" ] && [ -f "$GENSTAMP" ] && [ "$(cat "$GENSTAMP")" = "$REPO" ] \
   && [ "$GENSTAMP" -nt "$SPEC" ] && [ "$GENSTAMP" -nt "$HARNESS/gen_kernels_h.py" ]; then
  generated=uptodate   # same repo dir, specification not touched since: skip the ~1 s YAML load
elif [ -f "$SPEC" ]; then
  for py in "${PYTHON:-}" /venv/bin/python python3 python; do
    [ -n "$py" ] || continue
    command -v "$py" >/dev/null 2>&1 || continue
    if "$py" "$HARNESS/gen_kernels_h.py" "$SPEC" "$GEN"; then
      printf '%s\n' "$REPO" > "$GENSTAMP"
      generated=yes; break
    fi
  done
fi
if [ "$generated" = no ]; then
  # last resort: copy an existing header
  for cand in "$REPO/include/awkward/kernels.h" /repo/include/awkward/kernels.h; do
    if [ -f "$cand" ]; then
      echo "build.sh: WARNING: could not generate kernels.h, copying $cand" >&2
      cmp -s "$cand" "$GEN" || cp "$cand" "$GEN"
      generated=copied; break
    fi
  done
fi
[ "$generated" != no ] || { echo "build.sh: cannot produce kernels.h" >&2; exit 1; }

# ------------------------------------------------------------------ sources
( cd "$REPO/src" && find cpu-kernels -maxdepth 1 -name '*.cpp' | LC_ALL=C sort ) > "$BUILD/sources.kernels.txt"
( cd "$REPO/src" && find libawkward -name '*.cpp' | LC_ALL=C sort ) > "$BUILD/sources.libawkward.txt"
NK=$(wc -l < "$BUILD/sources.kernels.txt")
NL=$(wc -l < "$BUILD/sources.libawkward.txt")
[ "$NK" -gt 0 ] && [ "$NL" -gt 0 ] || { echo "build.sh: no sources found" >&2; exit 1; }

CXXFLAGS="-std=c++11 $OPT -fPIC -DVERSION_INFO='\"$VERSION_INFO\"' -I$BUILD/gen -I$REPO/include -I$HARNESS $EXTRA_CXXFLAGS"

# Everything that must trigger a full rebuild when it changes.
STAMP_TEXT="CXX=$CXX ($($CXX --version 2>/dev/null | head -1))
CXXFLAGS=$CXXFLAGS
REPO=$REPO"
if [ ! -f "$BUILD/flags.stamp" ] || [ "$(cat "$BUILD/flags.stamp")" != "$STAMP_TEXT" ]; then
  printf '%s\n' "$STAMP_TEXT" > "$BUILD/flags.stamp"
fi

if [ "${VERBOSE:-0}" = 1 ]; then Q=""; else Q="@"; fi

{
  echo "# generated by $HARNESS/build.sh -- do not edit"
  echo "CXX := $CXX"
  echo "CXXFLAGS := $CXXFLAGS"
  echo "REPO := $REPO"
  printf 'OBJS :='
  sed 's|\.cpp$|.o|; s|^| obj/|' "$BUILD/sources.kernels.txt" "$BUILD/sources.libawkward.txt" | tr -d '\n'
  echo
  cat <<EOF

.PHONY: all
all: libawkward-static.a

# flags.stamp changes when compiler, flags or repo dir change => rebuild all
obj/%.o: \$(REPO)/src/%.cpp flags.stamp
	@mkdir -p \$(dir \$@)
	${Q}echo "  CXX \$*.cpp"
	${Q}\$(CXX) \$(CXXFLAGS) -MMD -MP -c \$< -o \$@

libawkward-static.a: \$(OBJS)
	@echo "  AR  \$@ (\$(words \$(OBJS)) objects)"
	@rm -f \$@
	@ar rcs \$@ \$(OBJS)

-include \$(OBJS:.o=.d)
EOF
} > "$BUILD/Makefile"

echo "build.sh: repo=$REPO build=$BUILD"
echo "build.sh: $NK kernel sources + $NL libawkward sources, $CXX $OPT, $JOBS jobs"
make -C "$BUILD" -j"$JOBS" --no-print-directory all

END_NS=$(date +%s%N)
printf 'build.sh: done in %d.%01d s -> %s\n' \
  $(( (END_NS - START_NS) / 1000000000 )) $(( ((END_NS - START_NS) / 100000000) % 10 )) \
  "$BUILD/libawkward-static.a"
