#!/bin/bash
# whichrule.sh <commit>: revert the commit on a scratch worktree and run all quick checks; print violated rules
H=$1
D=/tmp/wr-$H; rm -rf $D; mkdir -p $D
git -C /repo worktree add -q --detach $D/repo HEAD
( cd $D/repo && git diff $H $H^ | git apply --3way - >/dev/null 2>&1 ) || { ( cd $D/repo && git checkout -q . && git diff $H $H^ | patch -p1 -s ) || echo "$H PATCH FAILED"; }
for i in $(seq -w 1 20); do
  VERIF_REPO=$D/repo VERIF_CACHE=$D/cache VERIF_EVIDENCE_DIR=$D/ev /venv/bin/python /verif/bin/check C$i --tier quick 2>&1 | grep "violated\|ANALYSIS-ERROR" | sed "s/^/$H C$i /" | cut -c1-230
done | sort -u -k3 | head -8
echo "$H done"
git -C /repo worktree remove --force $D/repo; rm -rf $D
