#!/venv/bin/python
"""Self-test of the checker, both ways (run by hand / by `vp run`; never a registered check):
   * every repair recorded with a rule in known_findings.json, reversed (selftest/reverts/*.diff, made by tools/make_reverts.py), must make
     the check of its property fail again with that rule;
   * every seeded change under /verif/seeded/<id>/patch.diff, applied to a scratch copy of /repo, must make the check of the
     property it breaks exit 1 (and name a rule);
   * every benign twin (behaviour-preserving edit computed here) must leave every check silent (exit 0).
The scratch copy lives under $TMPDIR and is removed afterwards; evidence of these runs goes to a scratch directory."""
import json, os, re, shutil, subprocess, sys, tempfile
from concurrent.futures import ThreadPoolExecutor

V = os.path.dirname(os.path.dirname(os.path.abspath(__file__)))
PROPS = [json.loads(l)["id"] for l in open(os.path.join(V, "properties.jsonl"))]


def make_copy(dst):
    os.makedirs(dst)
    for sub in ("src", "include", "kernel-specification.yml", "docs-sphinx", "dev"):
        s = os.path.join("/repo", sub)
        if os.path.isdir(s):
            shutil.copytree(s, os.path.join(dst, sub), ignore=shutil.ignore_patterns("*.pyc", "__pycache__", "cuda-kernels", "awkward_cuda_kernels", "_v2"))
        elif os.path.exists(s):
            shutil.copy(s, os.path.join(dst, sub))


def run_check(repo, prop, scratch):
    env = dict(os.environ, VERIF_REPO=repo, VERIF_CACHE=os.path.join(scratch, "cache"), VERIF_EVIDENCE_DIR=os.path.join(scratch, "evidence"))
    r = subprocess.run(["/venv/bin/python", os.path.join(V, "bin", "check"), prop, "--tier", "quick"], capture_output=True, text=True, env=env, cwd=V)
    rules = sorted(set(re.findall(r"violated: \[([^\]]+)\]", r.stdout)))
    return r.returncode, rules, r.stdout[-400:]


def sub(path, pat, rep, count=1, flags=0):
    s = open(path).read()
    s2, n = re.subn(pat, rep, s, count=count, flags=flags)
    assert n >= 1, "benign edit did not apply: %s %s" % (path, pat)
    open(path, "w").write(s2)


def benign_edits(repo):
    """behaviour-preserving edits (each must be tolerated by every rule)"""
    j = lambda *a: os.path.join(repo, *a)
    # 1. shift every line number in the list classes and in Content.cpp (comments + blank lines after the licence line)
    for f in ("src/libawkward/array/ListOffsetArray.cpp", "src/libawkward/array/ListArray.cpp", "src/libawkward/array/RegularArray.cpp", "src/libawkward/Content.cpp",
              "src/libawkward/forth/ForthMachine.cpp", "src/libawkward/builder/GrowableBuffer.cpp", "src/libawkward/array/NumpyArray.cpp"):
        s = open(j(f)).read().split("\n")
        s[1:1] = ["// benign twin: comment lines inserted to shift every line number", "", "/* another", "   comment */", ""]
        open(j(f), "w").write("\n".join(s))
    # 2. kernel: i++ -> i += 1 ; rename a local ; add a cast ; flip a comparison ; swap commutative operands
    sub(j("src/cpu-kernels/awkward_ListArray_num.cpp"), r"i\+\+", "i += 1")
    sub(j("src/cpu-kernels/awkward_ListArray_min_range.cpp"), r"\bshorter\b", "smallest", count=0)
    sub(j("src/cpu-kernels/awkward_RegularArray_num.cpp"), r"tonum\[i\] = size;", "tonum[i] = (T)size;")
    sub(j("src/cpu-kernels/awkward_IndexedArray_numnull.cpp"), r"fromindex\[i\] < 0", "0 > fromindex[i]")
    sub(j("src/cpu-kernels/awkward_ListOffsetArray_compact_offsets.cpp"), r"fromoffsets\[i \+ 1\]", "fromoffsets[1 + i]")
    # 3. libawkward: rename posaxis in one method; hoist an uninitialised declaration; braces/whitespace
    s = open(j("src/libawkward/array/RegularArray.cpp")).read()
    a = s.index("RegularArray::num(int64_t axis, int64_t depth) const {")
    b = s.index("\n  }\n", a)
    s = s[:a] + s[a:b].replace("posaxis", "wrapped_axis") + s[b:]
    open(j("src/libawkward/array/RegularArray.cpp"), "w").write(s)
    sub(j("src/libawkward/array/ListArray.cpp"), r"    int64_t posaxis = axis_wrap_if_negative\(axis, depth\);\n    if \(posaxis == depth\) \{\n      return rpad_axis0\(target, false\);",
        "    int64_t posaxis;\n    posaxis = axis_wrap_if_negative(axis, depth);\n    if (posaxis == depth) {\n      return rpad_axis0(target, false);")
    # 4. Python: comments, a renamed local, reformatting
    sub(j("src/awkward/_util.py"), r"^def completely_flatten", "# benign twin comment\n\n\ndef completely_flatten", flags=re.M)
    sub(j("src/awkward/partition.py"), r"    def rpad\(self, length, axis\):\n        if first\(self\)", "    def rpad(self, length, axis):\n        # benign comment\n        if first(self)")
    sub(j("src/awkward/operations/reducers.py"), r"layout\.sum\(axis=axis, mask=mask_identity, keepdims=keepdims\)", "layout.sum(keepdims=keepdims, axis=axis, mask=mask_identity)")
    # 4b. edits aimed at the rules of the ninth to eleventh batches: a compared length held in a local; the collected piece named before it is appended
    sub(j("src/libawkward/array/UnionArray.cpp"), r"    if \(index_\.length\(\) < lentags\) \{", "    int64_t lenindex = index_.length();\n    if (lenindex < lentags) {", count=1)
    sub(j("src/awkward/partition.py"), r"( +)outparts\.append\(inparts\[i\]\[\(headparts\[i\],\) \+ tail\]\)\n +outoffsets\.append\(outoffsets\[-1\] \+ len\(outparts\[-1\]\)\)",
        r"\1piece = inparts[i][(headparts[i],) + tail]\n\1outparts.append(piece)\n\1outoffsets.append(outoffsets[-1] + len(piece))")
    sub(j("src/awkward/operations/describe.py"), r"        out = array\.validityerror\(\)\n        if out is not None and exception:", "        out = array.validityerror()\n        if exception and out is not None:")
    # 4c. twelfth batch: the size of a raw buffer named before the allocation
    sub(j("src/libawkward/array/NumpyArray.cpp"), r"      std::shared_ptr<void> ptr\(\n        kernel::malloc<void>\(ptr_lib_, bytepos\.length\(\)\*strides_\[0\]\)\);",
        "      int64_t nbytes = bytepos.length()*strides_[0];\n      std::shared_ptr<void> ptr(\n        kernel::malloc<void>(ptr_lib_, nbytes));")
    # 5. spec and kernel changed together (contract moves consistently): rename a local in both
    sub(j("kernel-specification.yml"), r"def awkward_ListArray_min_range\(tomin, fromstarts, fromstops, lenstarts\):\n          shorter", "def awkward_ListArray_min_range(tomin, fromstarts, fromstops, lenstarts):\n          smallest", count=1) if False else None


def main():
    only = sys.argv[1:]
    scratch = tempfile.mkdtemp(prefix="vf-selftest-")
    ok = True
    try:
        base = os.path.join(scratch, "base")
        make_copy(base)
        # ---- seeded changes must be detected
        seeds = sorted(d for d in os.listdir(os.path.join(V, "seeded")) if os.path.exists(os.path.join(V, "seeded", d, "patch.diff")))
        jobs = []
        for sid in seeds:
            if only and sid not in only and "seeds" not in only:
                continue
            meta = json.load(open(os.path.join(V, "seeded", sid, "meta.json")))
            repo = os.path.join(scratch, "seed-" + sid)
            shutil.copytree(base, repo)
            p = subprocess.run(["patch", "-p1", "-s", "-i", os.path.join(V, "seeded", sid, "patch.diff")], cwd=repo, capture_output=True, text=True)
            if p.returncode != 0:
                print("SELFTEST-ERROR seed %s: patch does not apply to the current tree: %s" % (sid, p.stdout[-200:]))
                ok = False
                continue
            jobs.append((sid, meta["breaks_property"], repo, bool(meta.get("undetected"))))
        def do(job):
            sid, prop, repo, und = job
            rc, rules, tail = run_check(repo, prop, os.path.join(scratch, "s-" + sid))
            return sid, prop, rc, rules, und
        with ThreadPoolExecutor(8) as ex:
            for sid, prop, rc, rules, und in ex.map(do, jobs):
                if und:
                    # recorded as out of reach of the static rules (DESIGN.md 9.5): the check must stay silent or fire - but never break (exit 2)
                    good = rc in (0, 1)
                    print("%s seed %-34s -> %s exit %d (recorded as undetected) %s" % ("ok  " if good else "FAIL", sid, prop, rc, rules))
                else:
                    good = rc == 1 and rules
                    print("%s seed %-34s -> %s exit %d rules %s" % ("ok  " if good else "FAIL", sid, prop, rc, rules))
                ok = ok and good
        # ---- reverted repairs must be reported again, by the rule recorded for them
        idx = os.path.join(V, "selftest", "reverts", "index.json")
        if os.path.exists(idx) and (not only or "reverts" in only):
            entries = json.load(open(idx))["reverts"]
            nthreads = 12
            lanes = [entries[i::nthreads] for i in range(nthreads)]

            def lane(k):
                out = []
                if not lanes[k]:
                    return out
                repo = os.path.join(scratch, "revert-lane-%d" % k)
                shutil.copytree(base, repo)
                for e in lanes[k]:
                    diff = os.path.join(V, "selftest", "reverts", e["commit"] + ".diff")
                    p = subprocess.run(["patch", "-p1", "-s", "-i", diff], cwd=repo, capture_output=True, text=True)
                    if p.returncode != 0:
                        out.append((e, None, [], "reverse patch does not apply: " + p.stdout[-150:]))
                        subprocess.run(["patch", "-p1", "-s", "-R", "-i", diff], cwd=repo, capture_output=True, text=True)
                        continue
                    rc, rules, tail = run_check(repo, e["property"], os.path.join(scratch, "r-lane-%d" % k))
                    out.append((e, rc, rules, tail))
                    subprocess.run(["patch", "-p1", "-s", "-R", "-i", diff], cwd=repo, capture_output=True, text=True)
                return out
            with ThreadPoolExecutor(nthreads) as ex:
                for res in ex.map(lane, range(nthreads)):
                    for e, rc, rules, tail in res:
                        want = e["rule"].split(":")[0]
                        good = rc == 1 and any(r_.split(":")[0] == want or r_.startswith(want) for r_ in rules)
                        print("%s revert %s %-28s -> %s exit %s rules %s" % ("ok  " if good else "FAIL", e["commit"], e["rule"][:28], e["property"], rc, rules[:4]))
                        if not good and rc is None:
                            print("      " + tail)
                        ok = ok and good
        # ---- benign twins must be silent
        if not only or "benign" in only:
            repo = os.path.join(scratch, "benign")
            shutil.copytree(base, repo)
            benign_edits(repo)
            def dob(prop):
                return (prop,) + run_check(repo, prop, os.path.join(scratch, "b"))
            with ThreadPoolExecutor(8) as ex:
                for prop, rc, rules, tail in ex.map(dob, PROPS):
                    print("%s benign twin  %s exit %d %s" % ("ok  " if rc == 0 else "FAIL", prop, rc, rules if rc else ""))
                    if rc != 0:
                        print("      " + tail.replace("\n", "\n      ")[-600:])
                    ok = ok and rc == 0
    finally:
        shutil.rmtree(scratch, ignore_errors=True)
    print("SELFTEST", "PASSED" if ok else "FAILED")
    return 0 if ok else 1


if __name__ == "__main__":
    sys.exit(main())
