#!/venv/bin/python
"""Measure every rule's instance count on the current tree (quick tier) and freeze floors at 90% of it (half of it for rules with fewer than 20 instances).
Run by hand after the counts have been confirmed; never run by a registered check."""
import json, os, subprocess, sys
V = os.path.dirname(os.path.dirname(os.path.abspath(__file__)))
props = sys.argv[1:] or [json.loads(l)["id"] for l in open(os.path.join(V, "properties.jsonl"))]
fp = os.path.join(V, "tables", "floors.json")
floors = json.load(open(fp)) if os.path.exists(fp) else {}
for p in props:
    if not os.path.exists(os.path.join(V, "vf", "props", p + ".py")):
        continue
    env = dict(os.environ, VERIF_NOFLOOR="1")
    r = subprocess.run(["/venv/bin/python", "bin/check", p, "--tier", "quick"], cwd=V, env=env, capture_output=True, text=True)
    if r.returncode != 0:
        print(p, "exit", r.returncode, r.stdout[-300:])
        continue
    ev = json.load(open(os.path.join(V, "evidence", p + ".json")))
    # 90% of a large family; half of a small one (a handful of instances must not turn a behaviour-preserving edit that removes one into an analysis error)
    floors[p] = {x["rule"]: (int(x["obligations"] * 0.9) if x["obligations"] >= 20 else (x["obligations"] // 2 if x["obligations"] > 1 else x["obligations"])) for x in ev["coverage"]["rules"]}
    print(p, floors[p])
json.dump(floors, open(fp, "w"), indent=1, sort_keys=True)
