#!/bin/bash
# run all checks, both tiers, print rc per check
cd /verif
for t in quick thorough; do
  for i in $(seq -w 1 20); do
    ( /venv/bin/python bin/check C$i --tier $t > /tmp/runall.C$i.$t.log 2>&1; echo "C$i $t rc=$?" ) &
    while [ $(jobs -r | wc -l) -ge 8 ]; do sleep 0.5; done
  done
done
wait
