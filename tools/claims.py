CLAIMS["C13"] = dict(
    category="translation_validation",
    text=("For each of the 168 kernels that have a Python definition, the clang-resolved C++ body (template pattern; in thorough mode also every "
          "instantiation) and the definition are lowered to one normal form and must be identical; every one of the 690 specialisations must forward "
          "its parameters positionally to that one template and must have exactly the parameter names/types the specification lists. This decides "
          "'kernel computes what the definition computes' up to C integer-width effects, for all inputs, which sampling tests cannot."),
    note=("Trusted: clang 14 front end; the normal form (casts, ++ forms, for/while, commutative operand order, a>b vs b<a, dead dummy initialisers, names). "
          "Not decided: overflow/wrap-around per width; the 30 kernels without a definition (wrapper/signature rules only); extents (see C12)."),
    technique="translation validation by normal-form comparison of clang AST vs Python ast; wrapper/signature agreement over all specialisations",
    design_ref="DESIGN.md 2.A, 2.B, 3 (C13)",
)
