# executed by mkmanifest.py; fills CLAIMS (property -> claim) and NA (property -> reason)
_T = "static analysis: clang type-checked AST + Python ast + kernel-specification definitions; "
_NOTE = ("Trusted: clang 14 front end and JSON dump, Python ast, the normal form of rule A, the tabled exceptions under tables/ (each with a reason). "
         "Decides the named structural clauses only (each a necessary condition: breaking it breaks the behaviour); the behavioural remainder is listed under "
         "declined_clauses in the evidence file and in DESIGN.md section 3. /repo's C++ cannot be built or run in this sandbox, so nothing is executed.")

CLAIMS["C13"] = dict(
    category="translation_validation",
    text=("For each of the 168 kernels that have a Python definition, the clang-resolved C++ body (template pattern; in thorough mode also every "
          "instantiation) and the definition are lowered to one normal form and must be identical; every one of the 690 specialisations must forward "
          "its parameters positionally to that one template and have exactly the parameter names/types the specification lists; every kernel::K dispatch "
          "specialisation must forward positionally to the awkward_* symbol of the same kernel. This decides 'kernel computes what the definition computes' "
          "up to C integer-width effects, for all inputs, which sampling tests cannot."),
    note=("Trusted: clang 14 front end; the normal form (casts, ++ forms, for/while, commutative operand order, a>b vs b<a, dead dummy initialisers, names). "
          "Not decided: overflow/wrap-around per width; the 30 kernels without a definition (wrapper/signature/dispatch rules only); extents (see C12)."),
    technique="translation validation by normal-form comparison of clang AST vs Python ast; wrapper/signature/dispatch agreement over all specialisations",
    design_ref="DESIGN.md 2.A, 2.B, 3 (C13)",
)

_FAM = {
 "C01": ("slicing", "the ~55 getitem/carry/regularize/jagged/missing kernels equal their Python definitions (A) and all their width specialisations share one template (B); at every kernel call in the getitem/carry method family the Error is handled before anything else (D), role stems of parameter and argument agree (starts/stops/offsets/index/carry/advanced: ROLE), and out-parameters are bound to buffers created in the calling function (FRESH)"),
 "C02": ("layout independence", "every dynamic_cast dispatch on an operand names every index width of each family it mentions (FAMILY) and the width branches are clones up to width tokens (CLONE); all kernel specialisations share one template and kernel::K dispatch forwards positionally to the same-named symbol (B); the normalisation kernels (compact_offsets, broadcast_tooffsets, nextcarry, BitMasked/ByteMasked conversions, contiguous) equal their definitions (A); call-site rules D/ROLE/FRESH on the re-encoding methods"),
 "C03": ("reducers", "the reduce kernels with definitions equal them (A) and all dtype specialisations share one template (B); negaxis is passed on unchanged except negaxis-1 on the non-local branch of the list-offset node (AXIS.negaxis); D/ROLE/FRESH at the 165 kernel calls of the reduce family, incl. the 7-kernel non-local pipeline"),
 "C04": ("ufunc broadcasting", "the three broadcast_tooffsets kernels (whose failure() is the 'cannot broadcast nested list' error) equal their definitions and are called with handled errors, agreeing roles and fresh outputs"),
 "C05": ("flatten/num/local_index", "the axis/depth recursion discipline of num/offsets_and_flattened/localindex in all 14 node classes (list content gets depth+1, re-encodings and non-list nodes depth; AXIS), the 14 num/flatten/localindex kernels equal their definitions (A/B), D/ROLE/FRESH at their call sites"),
 "C06": ("sort/argsort", "negaxis discipline of sort_next/argsort_next (AXIS.negaxis), the sort-adjacent kernels that have definitions equal them and all 89 sort specialisations forward to one template per kernel (A/B), D/ROLE/FRESH at the 59 call sites"),
 "C07": ("combinations", "axis/depth discipline of combinations in all node classes (AXIS), awkward_combinations and ListArray_combinations_length equal their definitions (A/B), D/ROLE/FRESH at the call sites"),
 "C08": ("concatenate/merge/simplify", "the fill/simplify/filltags/fillindex kernels equal their definitions and their 206 dtype specialisations share one template per kernel (A/B), D/ROLE/FRESH at the 152 kernel calls of mergemany/simplify/numbers_to_type"),
 "C09": ("missing values", "axis/depth discipline of rpad/rpad_and_clip (AXIS), the 24 rpad/mask/numnull/BitMasked-conversion kernels equal their definitions (A/B), D/ROLE/FRESH at their call sites"),
 "C11": ("validity", "the three validity kernels equal their Python definitions (A/B) and are called with their error inspected (validityerror idiom) and role-agreeing arguments"),
}
for _p, (_n, _what) in _FAM.items():
    CLAIMS[_p] = dict(
        category="other",
        text=("Structural clauses of %s decided exactly, over every path/width/specialisation rather than over sampled inputs: %s. "
              "Each obligation is one rule instance on one construct; a violation names file:line and the construct." % (_n, _what)),
        note=_NOTE,
        technique=_T + "rule families A KSPEC, B KSIB, D ERRFLOW, ROLE, FRESH" + (", F AXIS" if _p in ("C03", "C05", "C06", "C07", "C09") else "") + (", E FAMILY/CLONE" if _p == "C02" else ""),
    )

CLAIMS["C12"] = dict(
    category="other",
    text=("Whole-tree safety/purity clauses: at all 538 kernel call sites the Error is handled before any use/exit/next kernel (or the kernel provably cannot fail); "
          "all 631 out-parameter arguments designate storage created in the calling function (scope-aware reaching definitions; fresh-returner summaries); "
          "1016 role-stem pairs agree; 707 dispatch specialisations forward positionally; every failure() inside a kernel is returned; all 22 extern \"C\" "
          "ArrayBuilder entry points are try/catch(...) wrapped; const_cast count is zero (with a positive control); raw new/delete only in tabled owner files."),
    note=_NOTE,
    technique=_T + "whole-program call-site rules D ERRFLOW, I FRESH, ROLE, B.2 dispatch, who-may-call for raw memory",
)

CLAIMS["C10"] = dict(category="other",
    text=("Structural clauses of record handling: getitem_field/getitem_fields of every wrapper node class rebuilds the same class with all of its own index/mask/size members unchanged around "
          "content->getitem_field(key) (projection commutes with positional structure by construction); util::key/fieldindex consult the lookup in declaration order; no same-named delegation "
          "permutes parameters (495 parameter positions); with_field broadcasts [base, what] with right_broadcast=False, removes only the replaced key and keeps base.parameters."),
    note=_NOTE, technique=_T + "constructor-argument agreement over the class table (RECORD.project-wrap), K FORWARD, Python ast clauses")
CLAIMS["C14"] = dict(category="other",
    text=("The promotion table of ArrayBuilder is extracted from the 7 leaf builders x 17 alphabet methods (119 cells) and compared with the documented unification (null -> option, int64 < float64 < complex128 "
          "tower: lower ranks accepted in place, higher promote to exactly that rank, anything else -> union, unbalanced end*/field/index throw, UnknownBuilder starts the value's builder); every ArrayBuilder "
          "forwarder passes the returned builder to maybeupdate; GrowableBuffer stores only at ptr_[length_] after the growth check and otherwise replaces ptr_ by fresh storage (snapshots are immutable); "
          "all 22 extern \"C\" entry points are try/catch wrapped."),
    note=_NOTE, technique=_T + "rule family M (action classification of method bodies vs a rank table), K FORWARD, D extern-C")
CLAIMS["C16"] = dict(category="other",
    text=("Writer/reader table agreement for to_buffers/from_buffers (per Form: buffers read are a subset of buffers written, each buffer is the attribute of that name, every written node class is "
          "constructible from its Form, index-form <-> dtype <-> Index class <-> writer index_form are consistent in signedness and width, (Form, width) -> class of that width); pickle uses the two functions "
          "with one key_format; util dtype tables are mutual inverses and format round-trips on all 18 enumerators (condition ASTs interpreted exhaustively); isinstance dispatches over width families are complete; "
          "no converter writes into a buffer borrowed from a layout."),
    note=_NOTE, technique=_T + "rule families J TABLE, N FINTAB (exhaustive interpretation of finite decision tables), E.3, I")
CLAIMS["C18"] = dict(category="other",
    text=("Every VirtualArray override of a Content virtual either delegates to array()->same method with exactly its own parameter list or is in the tabled lazy set (70 methods); ArrayGenerator::generate() is called "
          "only from generate_and_check(), which throws on length and on form mismatch; VirtualArray::array() takes its value only from the cache or generate_and_check() and stores after that; every PartitionedArray "
          "method that delegates to the same-named method of its partitions / toContent() forwards all of its parameters in order on every branch (34 delegations); no implicit 64->32 narrowing in the lazy-slice length."),
    note=_NOTE, technique=_T + "rule family K FORWARD (C++ and Python), who-may-call, WIDTH lint over clang's implicit-cast nodes")
CLAIMS["C19"] = dict(category="other",
    text=("Abstract interpretation of ForthMachineOf::internal_run with a (guaranteed depth, guaranteed room, non-zero facts, depth-guard) state: 274 pop/peek/push/slot/division/return-stack obligations each "
          "dominated by the matching guard that sets the matching error; opcode set = run cases = decompile cases; builtin words injective; opcode<->operator agreement for 8 arithmetic, 6 comparison, TRUE/FALSE opcodes; "
          "every case reaches the common epilogue or is a tabled early exit; every return is an error exit; output writes call maybe_resize before storing; input read/seek/skip are bounds-checked and followed by an error test; "
          "no implicit narrowing of stack values in any instantiation."),
    note=_NOTE, technique=_T + "syntax-directed abstract interpretation (typestate) over the VM's dispatch loop; table agreement; WIDTH lint")

CLAIMS["C15"] = dict(category="other",
    text=("Writer/reader alphabet agreement: each of the four ToJson* writers emits, for every builder-alphabet method, the rapidjson event of that meaning with its own argument, and the SAX Handler callback of every event "
          "calls exactly that builder method and returns true (141 cells): reader o writer is the identity on the alphabet; the four writer classes are clones; begin/end list/record calls are balanced on every path of all 31 "
          "tojson helpers (path-sensitive on the include_beginendlist flag); do_parse throws on every path where a document is incomplete and never returns from inside the document loop; the builder promotion table "
          "(what from_json builds) is as documented."),
    note=_NOTE + " rapidjson itself is absent (declaration-only stub for type checking).", technique=_T + "rule families J TABLE, E.2 CLONE, L.5 PAIR (balanced-call abstract interpretation), D ERRFLOW, M BUILDER")
CLAIMS["C17"] = dict(category="other",
    text=("Form <-> JSON agreement for all 14 Form classes (class names written are accepted and rebuilt as the same Form; keys read = keys written); the 11 structure queries of every Form class are clones of its "
          "array class's; XArray::type is form(true)->type for every node class; util dtype tables are mutual inverses (exhaustive); every primitive type name the printer can emit must be in the type grammar's TYPE terminal and in "
          "the generated parser (7 known findings: float16/float128/complex*/datetime64/timedelta64 are printed but not parsable)."),
    note=_NOTE, technique=_T + "rule families J TABLE (writer/reader key sets, printer vs grammar terminals), E.2 CLONE (Form vs Array), K FORWARD, N FINTAB")
CLAIMS["C20"] = dict(category="other",
    text=("For all 11 numba ContentType classes: slot constants are 0..n-1, tolookup/form_tolookup append the buffers in slot order, and every binding from / store into a slot carries that slot's role stem "
          "(startspos <- STARTS ...); every lower_getitem_at re-binds atval = regularize_atval(...) before the first element read; the extern \"C\" ArrayBuilder API, its ctypes declarations and the 20 lowered calls in "
          "builder.py agree in name, arity and argument types; extern \"C\" entry points never throw; isinstance dispatches over layout classes are width-complete."),
    note=_NOTE + " Python side analysed with ast only; nothing is imported.", technique=_T + "rule families J TABLE (slot tables, C API), ROLE, L.2 GUARD, E.3")
