#!/bin/bash
# tryrevert.sh <commit> <PROP>: apply selftest/reverts/<commit>.diff to a scratch copy and run the quick check
H=$1; P=$2
D=/tmp/tryrev-$H; rm -rf $D; mkdir -p $D
git -C /repo worktree add -q --detach $D/repo HEAD
( cd $D/repo && patch -p1 -s -i /verif/selftest/reverts/$H.diff ) || echo "PATCH FAILED"
VERIF_REPO=$D/repo VERIF_EVIDENCE_DIR=/tmp/ev-try /venv/bin/python /verif/bin/check $P --tier quick 2>&1 | grep "violated\|ANALYSIS-ERROR\|quick:" | cut -c1-260 | head -5
git -C /repo worktree remove --force $D/repo; rm -rf $D
