#!/bin/bash
# confirm_seed.sh <ID> <outdir-from-agent> : confirm a seeded change in a scratch worktree (demo passes without, fails with),
# then run the registered checks against /repo with the patch applied, and undo it.  Writes /verif/seeded/<ID>/.
set -u
ID="$1"; SRC="$2"; PROPS="${3:-}"
SEED=/verif/seeded/$ID
mkdir -p "$SEED"
cp "$SRC/patch.diff" "$SRC/demo.cpp" "$SEED/" 2>/dev/null
[ -f "$SRC/notes.md" ] && cp "$SRC/notes.md" "$SEED/agent_notes.md"
WT=/tmp/cf/$ID; BD=/tmp/cf-build-$ID
rm -rf "$WT" "$BD"; mkdir -p /tmp/cf
git -C /repo worktree add -q --detach "$WT" HEAD || exit 3
( cd "$WT" && git apply --check "$SEED/patch.diff" ) || { echo "patch does not apply to /repo HEAD"; git -C /repo worktree remove --force "$WT"; exit 4; }
QUIET=1 /verif/harness/build.sh "$WT" "$BD" >/dev/null 2>&1 || { echo "baseline build failed"; exit 5; }
QUIET=1 /verif/harness/run_demo.sh "$WT" "$BD" "$SEED/demo.cpp" > "$SEED/demo_without.txt" 2>&1; RC0=$?
( cd "$WT" && git apply "$SEED/patch.diff" )
QUIET=1 /verif/harness/build.sh "$WT" "$BD" >/dev/null 2>&1; BRC=$?
QUIET=1 /verif/harness/run_demo.sh "$WT" "$BD" "$SEED/demo.cpp" > "$SEED/demo_with.txt" 2>&1; RC1=$?
git -C /repo worktree remove --force "$WT"; rm -rf "$BD"
echo "demo without change: exit $RC0 ; build with change: $BRC ; demo with change: exit $RC1"
# now the checks, against /repo itself
git -C /repo apply "$SEED/patch.diff" || exit 6
DET=""
for p in C01 C02 C03 C04 C05 C06 C07 C08 C09 C10 C11 C12 C13 C14 C15 C16 C17 C18 C19 C20; do
  [ -f /verif/vf/props/$p.py ] || continue
  out=$(cd /verif && /venv/bin/python bin/check $p --tier quick 2>&1); rc=$?
  if [ $rc -ne 0 ]; then DET="$DET $p(rc=$rc)"; echo "$out" | grep -m3 "violated:\|ANALYSIS-ERROR" | cut -c1-300 > "$SEED/detected_$p.txt"; fi
done
git -C /repo checkout -- .
echo "detected by:${DET:- NONE}"
cat > "$SEED/confirm.json" <<EOJ
{"id": "$ID", "demo_exit_without": $RC0, "build_with": $BRC, "demo_exit_with": $RC1, "detected_by_quick_checks": "${DET# }"}
EOJ
