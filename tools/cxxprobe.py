import sys, os, importlib
os.environ["VERIF_NOFLOOR"]="1"; os.environ["VERIF_EVIDENCE_DIR"]="/tmp/ev-probe"
sys.path.insert(0,'/verif')
from vf.core import Report
from vf.facts import Facts
fb=Facts()
rep=Report("C15","quick")
for spec in sys.argv[1:]:
    mod,fn=spec.split(":")
    f=getattr(importlib.import_module("vf.rules."+mod),fn)
    r=f(rep,fb)
    vs=[v for v in rep.violations if v["rule"]==r.name]
    print(r.name, r.obligations, len(vs))
    for v in vs[:40]: print("  ", v["key"], v["where"], v["what"][:200])
