#!/venv/bin/python
"""Regenerates /verif/MANIFEST.json from the table below (single source of truth for the interface)."""
import json, os
V = os.path.dirname(os.path.dirname(os.path.abspath(__file__)))
props = [json.loads(l) for l in open(os.path.join(V, "properties.jsonl"))]

CLAIMS = {}   # id -> dict(category, text, note, technique, design_ref)
NA = {}       # id -> reason
exec(open(os.path.join(V, "tools", "claims.py")).read())

checks = []
for p in props:
    i = p["id"]
    if i not in CLAIMS:
        continue
    c = CLAIMS[i]
    checks.append({
        "property_id": i,
        "quick_cmd": "/venv/bin/python bin/check %s --tier quick" % i,
        "thorough_cmd": "/venv/bin/python bin/check %s --tier thorough" % i,
        "evidence_file": "/verif/evidence/%s.json" % i,
        "replay_cmd_template": "/venv/bin/python bin/check --replay {path}",
        "engine": "vf",
        "level_claimed": {"category": c["category"], "text": c["text"], "design_ref": c.get("design_ref", "DESIGN.md section 3, " + i)},
        "level_note": c["note"],
        "technique": c["technique"],
    })
m = {
    "version": 1,
    "setup_cmd": "/venv/bin/python bin/check --warm",
    "hooks": {"guard": "AWKWARD_VERIF", "enable": "no hooks: nothing in /repo is instrumented or built; every check parses /repo's current working tree (clang -fsyntax-only AST dump, Python ast, kernel-specification.yml)",
              "baseline_off_cmd": "cd /repo && /venv/bin/python -m pytest -ra -q -p no:cacheprovider --timeout=900 --continue-on-collection-errors",
              "source_commits": [], "add_only": True},
    "engines": [{"name": "vf", "path": "/verif/vf", "serves_properties": sorted(CLAIMS),
                 "kind_free_text": "repository-specific static analysis: clang type-checked AST (JSON) -> tuple IR, Python ast, kernel specification definitions; rule families A..N of DESIGN.md"}],
    "checks": checks,
    "notes": "Static analysis only. exit 0 = all rule instances hold; 1 = VIOLATION line(s); 2 = ANALYSIS-ERROR (broken check / vanished anchor / rule below its instance floor). Known findings: known_findings.json.",
    "not_applicable": [{"property_id": p["id"], "reason": NA.get(p["id"], "check not yet implemented (build in progress)")} for p in props if p["id"] not in CLAIMS],
}
json.dump(m, open(os.path.join(V, "MANIFEST.json"), "w"), indent=1)
print("claimed", sorted(CLAIMS), "n/a", [x["property_id"] for x in m["not_applicable"]])
