#!/venv/bin/python
"""Regression corpus from the repairs: for every `fixed:` entry of known_findings.json that names the rule which reports the defect,
write the reverse of that /repo commit as a patch against today's HEAD (selftest/reverts/<hash>.diff).  tools/selftest.py applies each
to a scratch copy and requires the named property's check to fail with that rule: a rule that found a defect keeps finding it.
Commits whose reverse no longer applies cleanly to HEAD (the same lines were changed again later) are skipped and listed."""
import json, os, re, subprocess, sys, tempfile, shutil
V = os.path.dirname(os.path.dirname(os.path.abspath(__file__)))
out = os.path.join(V, "selftest", "reverts")
os.makedirs(out, exist_ok=True)
kf = json.load(open(os.path.join(V, "known_findings.json")))
index, skipped = [], []
wt = tempfile.mkdtemp(prefix="vf-reverts-")
subprocess.check_call(["git", "-C", "/repo", "worktree", "add", "-q", "--detach", os.path.join(wt, "r"), "HEAD"])
try:
    for e in kf["fixed"]:
        m = re.match(r"fixed: property=(C\d\d) ([0-9a-f]{7,}) (.*)", e)
        if not m:
            continue
        prop, h, rest = m.groups()
        # the rule is either the first word after the commit hash, or announced as "(rule NAME ..."; entries that only mention a related
        # rule, or that say the defect was found by running code and has no rule, are not part of the corpus
        rm = re.match(r"([A-Z]{3,}\.[A-Za-z0-9_.:-]+)", rest) or re.search(r"\(rules? ([A-Z]{3,}\.[A-Za-z0-9_.:-]+)", rest)
        if not rm or "no rule" in rest or "related rule" in rest or "family; harness" in rest:
            continue
        rule = rm.group(1).rstrip(".,:;)")
        r = os.path.join(wt, "r")
        subprocess.check_call(["git", "-C", r, "checkout", "-q", "--", "."])
        p = subprocess.run(["git", "-C", r, "revert", "-n", h], capture_output=True, text=True)
        if p.returncode != 0:
            subprocess.run(["git", "-C", r, "revert", "--abort"], capture_output=True)
            subprocess.run(["git", "-C", r, "reset", "-q", "--hard", "HEAD"], capture_output=True)
            skipped.append((h, prop, rule, "reverse does not apply to HEAD"))
            continue
        d = subprocess.run(["git", "-C", r, "diff", "HEAD"], capture_output=True, text=True).stdout
        subprocess.run(["git", "-C", r, "reset", "-q", "--hard", "HEAD"], capture_output=True)
        if not d.strip():
            skipped.append((h, prop, rule, "empty reverse"))
            continue
        open(os.path.join(out, h + ".diff"), "w").write(d)
        index.append({"commit": h, "property": prop, "rule": rule, "what": rest[:160]})
finally:
    subprocess.run(["git", "-C", "/repo", "worktree", "remove", "--force", os.path.join(wt, "r")])
    shutil.rmtree(wt, ignore_errors=True)
json.dump({"reverts": index, "skipped": [list(x) for x in skipped]}, open(os.path.join(out, "index.json"), "w"), indent=1)
print("reverts written: %d ; skipped: %d" % (len(index), len(skipped)))
for s in skipped:
    print("  skipped", *s)
