// positive controls for WIDTH.narrow-arith, SIGN.cond-unsigned and DEAD.exception-unthrown (never part of /repo)
#include <cstdint>
#include <stdexcept>
namespace awkward {
  struct Probe2 {
    bool f(uint32_t idx, int64_t length) const { return idx + 1 >= length; }
    int64_t g(bool m, const uint32_t* from, int64_t i) const { int64_t out = (m ? -1 : from[i]); return out; }
    void h(int64_t x) const { if (x < 0) { std::invalid_argument("negative"); } }
  };
}
