// positive control for rule FRESH.no-const-cast (never part of /repo)
namespace awkward { struct Probe { int* f(const int* p) const { return const_cast<int*>(p); } }; }
